#!/usr/bin/env python3
"""Compile + link one harness binary against the instrumented PaRSEC objects."""
import os, subprocess, sys, json, shlex
from . import pipeline as P

WRAPS = ["pthread_create", "pthread_join", "pthread_mutex_lock", "pthread_mutex_unlock",
         "pthread_mutex_init", "pthread_mutex_destroy",
         "pthread_cond_wait", "pthread_cond_signal", "pthread_cond_broadcast",
         "nanosleep", "usleep", "sched_yield", "gettimeofday", "clock_gettime"]

VERIF = P.VERIF


def _run(cmd):
    r = subprocess.run(cmd, stdout=subprocess.PIPE, stderr=subprocess.STDOUT, text=True)
    if r.returncode != 0:
        sys.stderr.write(" ".join(shlex.quote(c) for c in cmd) + "\n" + r.stdout[-6000:])
        raise SystemExit("[build] harness compile failed")
    return r.stdout


def _newer(dst, srcs):
    if not os.path.exists(dst):
        return True
    t = os.path.getmtime(dst)
    srcs = list(srcs)
    d = dst + ".d"
    if os.path.exists(d):
        txt = open(d).read().replace("\\\n", " ")
        if ":" in txt:
            srcs += txt.split(":", 1)[1].split()
    return any((not os.path.exists(s)) or os.path.getmtime(s) > t for s in srcs)


def build(name, instr_srcs=(), plain_srcs=(), whole=False, extra_libs=(), variant="B",
          extra_instr_flags=(), extra_objs=(), defines=()):
    """Returns path of the harness executable.  Always re-checks staleness against the
    instrumented archive (which itself tracks /repo through depfiles)."""
    cf = P.cflags(variant)
    bdir = os.path.join(P.WORK, variant)
    hdir = os.path.join(P.WORK, "H", name)
    os.makedirs(hdir, exist_ok=True)
    cc = cf["cc"]
    inc = [f for f in cf["flags"] if f.startswith("-I")]
    base = ["-O2", "-g", "-std=gnu11", "-m64", "-mcx16", "-D_GNU_SOURCE", "-DPARSEC_VERIF_SIM", "-Wall", "-Wno-unused-function"] + list(defines)
    objs = []
    deps_all = []
    hdr_deps = [os.path.join(VERIF, "sim/core/sim.h"), os.path.join(VERIF, "harness/hx.h"), os.path.join(VERIF, "oracle/lin.h")]
    # headers of /repo may change inline code used by shims: depend on the archive timestamp
    arch = os.path.join(bdir, "libparsec_b.a")
    for src in instr_srcs:
        o = os.path.join(hdir, os.path.basename(src) + ".i.o")
        if _newer(o, [src] + hdr_deps):
            flags = [f for f in cf["flags"]]
            _run([cc] + flags + cf["instr"] + list(extra_instr_flags) + list(defines) + ["-I" + VERIF, "-MD", "-MF", o + ".d", "-c", src, "-o", o])
        objs.append(o)
    common = [os.path.join(VERIF, "sim/core/sim.c"), os.path.join(VERIF, "harness/hx.c"), os.path.join(VERIF, "oracle/lin.c")]
    for src in list(plain_srcs) + common:
        o = os.path.join(hdir, os.path.basename(src) + ".o")
        if _newer(o, [src] + hdr_deps):
            _run([cc] + base + inc + ["-I" + VERIF, "-MD", "-MF", o + ".d", "-c", src, "-o", o])
        objs.append(o)
    exe = os.path.join(hdir, name)
    lib = [os.path.join(bdir, "parsec_all.o")] if whole else [arch]
    if _newer(exe, objs + lib + list(extra_objs)):
        cmd = [cc, "-o", exe] + objs + list(extra_objs) + lib + ["-Wl,--wrap=" + w for w in WRAPS]
        cmd += ["-Wl,--wrap=%s" % w for w in []]
        cmd += list(extra_libs) + ["-lhwloc", "-lm", "-ldl", "-lpthread"]
        _run(cmd)
    return exe
