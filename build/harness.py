#!/usr/bin/env python3
"""Compile + link one harness binary against the instrumented PaRSEC objects."""
import os, subprocess, sys, json, shlex
from . import pipeline as P

WRAPS = ["pthread_create", "pthread_join", "pthread_mutex_lock", "pthread_mutex_unlock",
         "pthread_mutex_init", "pthread_mutex_destroy",
         "pthread_cond_wait", "pthread_cond_signal", "pthread_cond_broadcast",
         "nanosleep", "usleep", "sched_yield", "gettimeofday", "clock_gettime"]

VERIF = P.VERIF


def _run(cmd):
    r = subprocess.run(cmd, stdout=subprocess.PIPE, stderr=subprocess.STDOUT, text=True)
    if r.returncode != 0:
        sys.stderr.write(" ".join(shlex.quote(c) for c in cmd) + "\n" + r.stdout[-6000:])
        raise SystemExit("[build] harness compile failed")
    return r.stdout


def _newer(dst, srcs):
    if not os.path.exists(dst):
        return True
    t = os.path.getmtime(dst)
    srcs = list(srcs)
    d = dst + ".d"
    if os.path.exists(d):
        txt = open(d).read().replace("\\\n", " ")
        if ":" in txt:
            srcs += txt.split(":", 1)[1].split()
    return any((not os.path.exists(s)) or os.path.getmtime(s) > t for s in srcs)


def build(name, instr_srcs=(), plain_srcs=(), whole=False, extra_libs=(), variant="B",
          extra_instr_flags=(), extra_objs=(), defines=()):
    """Returns path of the harness executable.  Always re-checks staleness against the
    instrumented archive (which itself tracks /repo through depfiles)."""
    cf = P.cflags(variant)
    bdir = os.path.join(P.WORK, variant)
    hdir = os.path.join(P.WORK, "H", name)
    os.makedirs(hdir, exist_ok=True)
    cc = cf["cc"]
    inc = [f for f in cf["flags"] if f.startswith("-I")]
    base = ["-O2", "-g", "-std=gnu11", "-m64", "-mcx16", "-D_GNU_SOURCE", "-DPARSEC_VERIF_SIM", "-Wall", "-Wno-unused-function"] + list(defines)
    objs = []
    deps_all = []
    hdr_deps = [os.path.join(VERIF, "sim/core/sim.h"), os.path.join(VERIF, "harness/hx.h"), os.path.join(VERIF, "oracle/lin.h")]
    # headers of /repo may change inline code used by shims: depend on the archive timestamp
    arch = os.path.join(bdir, "libparsec_b.a")
    for src in instr_srcs:
        o = os.path.join(hdir, os.path.basename(src) + ".i.o")
        if _newer(o, [src] + hdr_deps):
            flags = [f for f in cf["flags"]]
            _run([cc] + flags + cf["instr"] + list(extra_instr_flags) + list(defines) + ["-I" + VERIF, "-MD", "-MF", o + ".d", "-c", src, "-o", o])
        objs.append(o)
    common = [os.path.join(VERIF, "sim/core/sim.c"), os.path.join(VERIF, "harness/hx.c"), os.path.join(VERIF, "oracle/lin.c")]
    for src in list(plain_srcs) + common:
        o = os.path.join(hdir, os.path.basename(src) + ".o")
        if _newer(o, [src] + hdr_deps):
            _run([cc] + base + inc + ["-I" + VERIF, "-MD", "-MF", o + ".d", "-c", src, "-o", o])
        objs.append(o)
    exe = os.path.join(hdir, name)
    lib = [os.path.join(bdir, "parsec_all.o")] if whole else [arch]
    if _newer(exe, objs + lib + list(extra_objs)):
        cmd = [cc, "-o", exe] + objs + list(extra_objs) + lib + ["-Wl,--wrap=" + w for w in WRAPS]
        cmd += ["-Wl,--wrap=%s" % w for w in []]
        cmd += list(extra_libs) + ["-lhwloc", "-lm", "-ldl", "-lpthread"]
        _run(cmd)
    return exe


def build_ranked(name, driver_srcs, plain_srcs, nranks, variant="B", extra_plain=(), extra_libs=(), defines=(),
                 driver_extra_objs=()):
    """Runtime-level harness: `nranks` private copies of (libparsec + driver) in one executable.

    rank_base.o = ld -r (parsec_all.o + instrumented driver objects); for each rank k every
    global symbol *defined* in rank_base.o is renamed to r<k>_<sym> (objcopy --redefine-syms);
    undefined symbols (libc, MPI_*, __tsan_*, sim_*, harness callbacks) stay shared.
    The driver must define `void *rank_main(void *)`.
    """
    cf = P.cflags(variant)
    bdir = os.path.join(P.WORK, variant)
    hdir = os.path.join(P.WORK, "H", name)
    os.makedirs(hdir, exist_ok=True)
    cc = cf["cc"]
    inc = [f for f in cf["flags"] if f.startswith("-I")]
    base = ["-O2", "-g", "-std=gnu11", "-m64", "-mcx16", "-D_GNU_SOURCE", "-DPARSEC_VERIF_SIM", "-Wall", "-Wno-unused-function"] + list(defines)
    hdr_deps = [os.path.join(VERIF, "sim/core/sim.h"), os.path.join(VERIF, "harness/hx.h"), os.path.join(VERIF, "oracle/lin.h"),
                os.path.join(VERIF, "sim/mpi/simmpi.h")]
    allo = os.path.join(bdir, "parsec_all.o")
    dobjs = []
    for src in driver_srcs:
        o = os.path.join(hdir, os.path.basename(src) + ".i.o")
        if _newer(o, [src] + hdr_deps):
            flags = [f for f in cf["flags"] if f != "-DBUILDING_PARSEC" and f != "-Dparsec_EXPORTS"]
            _run([cc] + flags + cf["instr"] + list(defines) + ["-I" + VERIF, "-I" + P.REPO, "-MD", "-MF", o + ".d", "-c", src, "-o", o])
        dobjs.append(o)
    rb = os.path.join(hdir, "rank_base.o")
    robjs = []
    if _newer(rb, dobjs + [allo] + list(driver_extra_objs)):
        _run(["ld", "-r", "-o", rb, allo] + dobjs + list(driver_extra_objs))
    syms = None
    for k in range(nranks):
        ro = os.path.join(hdir, "rank%d.o" % k)
        if _newer(ro, [rb]):
            if syms is None:
                out = _run(["nm", "--defined-only", "-g", rb])
                syms = sorted(set(l.split()[-1] for l in out.splitlines() if len(l.split()) >= 3))
            mp = os.path.join(hdir, "map%d.txt" % k)
            open(mp, "w").write("".join("%s r%d_%s\n" % (s, k, s) for s in syms))
            _run(["objcopy", "--redefine-syms=" + mp, rb, ro])
        robjs.append(ro)
    tab = os.path.join(hdir, "ranks_table.c")
    txt = "".join("extern void *r%d_rank_main(void *);\n" % k for k in range(nranks))
    txt += "int hx_rank_count = %d;\nvoid *(*hx_rank_mains[])(void *) = {%s};\n" % (nranks, ", ".join("r%d_rank_main" % k for k in range(nranks)))
    if not os.path.exists(tab) or open(tab).read() != txt:
        open(tab, "w").write(txt)
    objs = []
    common = [os.path.join(VERIF, "sim/core/sim.c"), os.path.join(VERIF, "harness/hx.c"), os.path.join(VERIF, "oracle/lin.c"),
              os.path.join(VERIF, "sim/mpi/simmpi.c"), tab]
    for src in list(plain_srcs) + list(extra_plain) + common:
        o = os.path.join(hdir, os.path.basename(src) + ".o")
        if _newer(o, [src] + hdr_deps):
            _run([cc] + base + inc + ["-I" + VERIF, "-MD", "-MF", o + ".d", "-c", src, "-o", o])
        objs.append(o)
    exe = os.path.join(hdir, name)
    if _newer(exe, objs + robjs):
        cmd = [cc, "-o", exe] + objs + robjs + ["-Wl,--wrap=" + w for w in WRAPS]
        cmd += list(extra_libs) + ["-lhwloc", "-lm", "-ldl", "-lpthread"]
        _run(cmd)
    return exe


def build_ptg(program, depmode, nranks, variant="B"):
    """PTG program -> JDF + reference (gen/ptg/gen.py) -> real ptgpp -> rankified harness binary.
    depmode: 'dynamic-hash-table' | 'index-array', optionally suffixed '+dyn' for ptgpp --dynamic-termdet"""
    dyn = depmode.endswith("+dyn")
    if dyn:
        depmode = depmode[:-4]
    name = "ptg_%s_%s%s" % (program, "ia" if depmode == "index-array" else "ht", "_dyn" if dyn else "")
    hdir = os.path.join(P.WORK, "H", name)
    os.makedirs(hdir, exist_ok=True)
    gen = os.path.join(VERIF, "gen/ptg/gen.py")
    jdf = os.path.join(hdir, program + ".jdf")
    ptgpp = os.path.join(P.A, "parsec/interfaces/ptg/ptg-compiler/parsec-ptgpp")
    if _newer(jdf, [gen]):
        _run([sys.executable, gen, program, hdir])
    cfile = os.path.join(hdir, program + ".c")
    if _newer(cfile, [jdf, ptgpp]):
        _run([ptgpp, "-E", "-i", jdf, "-o", os.path.join(hdir, program), "-f", program, "-M", depmode] + (["--dynamic-termdet"] if dyn else []))
    defines = ["-I" + hdir] + (["-DPTG_INDEX_ARRAY"] if depmode == "index-array" else []) + (["-DPTG_DYNAMIC_TERMDET"] if dyn else [])
    return build_ranked(name, [os.path.join(VERIF, "harness/l2/ptg_driver.c"), cfile],
                        [os.path.join(VERIF, "harness/l2/ptg.c"), os.path.join(hdir, program + "_ref.c")],
                        nranks, variant=variant, defines=defines)
