#!/usr/bin/env python3
"""Build variant B-dev (DESIGN 3.5): libparsec + the back-end agnostic GPU device layer.

`check` calls P.ensure("Bdev") (a plain instrumented copy of libparsec in _work/Bdev) and then
`prebuild(spec)` below, which rewrites _work/Bdev/parsec_all.o as

    ld -r ( every stock instrumented object EXCEPT the three replaced ones
            + device_gpu.c + transfer_gpu.c            [never compiled in the baseline configuration]
            + insert_function.c   recompiled with -DPARSEC_HAVE_DEV_LEVEL_ZERO_SUPPORT (DTD GPU submit path)
            + data.c              recompiled with the three ownership-transfer functions renamed
                                  (verif_real_*): the driver defines call-through monitors under the
                                  original names (C26)
            + mca_repository.c    recompiled against a mca_static_components.h that additionally
                                  lists the `device/simdev` component (generated from build A's header) )

Every source is read from P.REPO at build time (same flags as the pipeline: the compile_commands.json
entry of the file for replaced sources, parsec.c's flags for the two new ones, plus the tsan-style
instrumentation), so "rebuilt from /repo's working tree" stays true and VERIF_REPO/VERIF_WORK work.

PARSEC_HAVE_DEV_LEVEL_ZERO_SUPPORT is the only PARSEC_HAVE_DEV_*_SUPPORT define that pulls in no vendor
header: transfer_gpu.c #errors without one of them and insert_function.c compiles the GPU submit hook
out.  device.c, scheduling.c, parsec.c do not depend on it.  The *runtime* type of a simdev device is
PARSEC_DEV_CUDA (see sim/dev/simdev_parsec.c for why).
"""
import os, re, shlex, subprocess, sys
from . import pipeline as P
from . import harness as HB

DEVDEF = "-DPARSEC_HAVE_DEV_LEVEL_ZERO_SUPPORT"
RENAMES = ["parsec_data_start_transfer_ownership_to_copy",
           "parsec_data_end_transfer_ownership_to_copy",
           "parsec_data_transfer_ownership_to_copy"]
REPLACED = {
    "parsec/interfaces/dtd/insert_function.c": [DEVDEF],
    "parsec/data.c": [DEVDEF] + ["-D%s=verif_real_%s" % (s, s) for s in RENAMES],
    "parsec/mca/mca_repository.c": [],
}
ADDED = ["parsec/mca/device/device_gpu.c", "parsec/mca/device/transfer_gpu.c"]


def _gen_static_components(dst):
    """A's generated component table + one more entry: device_simdev_static_component()."""
    src = os.path.join(P.A, "parsec/mca/mca_static_components.h")
    txt = open(src).read()
    m = re.search(r"#define MCA_NB_STATIC_COMPONENTS (\d+)", txt)
    if not m or "device_simdev_static_component" in txt:
        raise SystemExit("[devbuild] unexpected mca_static_components.h")
    txt = txt.replace(m.group(0), "#define MCA_NB_STATIC_COMPONENTS %d" % (int(m.group(1)) + 1))
    decl = "mca_base_component_t *device_simdev_static_component(void);\n"
    txt = txt.replace("static mca_base_component_t *mca_static_components[", decl + "\nstatic mca_base_component_t *mca_static_components[", 1)
    # the framework registration line of "device" exists even without components; the simdev component goes first
    anchor = '      register_base_component("device");'
    if anchor not in txt:
        raise SystemExit("[devbuild] no device framework line in mca_static_components.h")
    txt = txt.replace(anchor, '    p = add_static_component(device_simdev_static_component(), p);  register_base_component("device");', 1)
    os.makedirs(os.path.dirname(dst), exist_ok=True)
    if not os.path.exists(dst) or open(dst).read() != txt:
        open(dst, "w").write(txt)


def prebuild(spec):
    variant = spec.get("variant", "Bdev")
    bdir = os.path.join(P.WORK, variant)
    ddir = os.path.join(bdir, "dev")
    os.makedirs(ddir, exist_ok=True)
    with P.Lock():
        cf = P.cflags(variant)
        incdir = os.path.join(ddir, "inc")
        _gen_static_components(os.path.join(incdir, "parsec/mca/mca_static_components.h"))
        ents = P.parsec_entries()
        stock, mine = [], []
        seen = set()
        for e in ents:
            name, cmd, src, d = P.rewrite(e, P.INSTR)
            rel = os.path.relpath(src, P.REPO)
            if rel in REPLACED:
                seen.add(rel)
                o = os.path.join(ddir, name)
                extra = list(REPLACED[rel])
                if rel.endswith("mca_repository.c"):
                    cmd = [cmd[0], "-I" + incdir] + cmd[1:]
                if HB._newer(o, [src, os.path.join(incdir, "parsec/mca/mca_static_components.h")]):
                    P.log("devbuild cc", rel)
                    r = subprocess.run(cmd + extra + ["-MD", "-MF", o + ".d", "-c", src, "-o", o], cwd=d,
                                       stdout=subprocess.PIPE, stderr=subprocess.STDOUT, text=True)
                    if r.returncode:
                        sys.stderr.write(r.stdout[-6000:])
                        raise SystemExit("[devbuild] compile failed: " + rel)
                mine.append(o)
            else:
                stock.append(os.path.join(bdir, name))
        if seen != set(REPLACED):
            raise SystemExit("[devbuild] replaced sources not found in compile_commands: %s" % (set(REPLACED) - seen))
        for rel in ADDED:
            src = os.path.join(P.REPO, rel)
            o = os.path.join(ddir, rel.replace("/", "_") + ".o")
            if HB._newer(o, [src]):
                P.log("devbuild cc", rel)
                P.run([cf["cc"]] + cf["flags"] + cf["instr"] + [DEVDEF, "-MD", "-MF", o + ".d", "-c", src, "-o", o])
            mine.append(o)
        allo = os.path.join(bdir, "parsec_all.o")
        stamp = os.path.join(ddir, "parsec_all.stamp")
        st = os.stat(allo)
        # stamp = "<mtime_ns> <size> <newest private object mtime_ns>" of our last relink.  ninja only looks at the mtime it
        # recorded for its own (stock) parsec_all.o, so the relinked file keeps that mtime: the stock link is not redone on
        # every check, and when ninja does rewrite the file (a library source changed) mtime/size differ from the stamp.
        newest_mine = max(os.stat(o).st_mtime_ns for o in mine)
        cur = "%d %d %d" % (st.st_mtime_ns, st.st_size, newest_mine)
        if (not os.path.exists(stamp)) or open(stamp).read() != cur:
            P.log("devbuild ld -r parsec_all.o (+device_gpu, transfer_gpu, private insert_function/data/mca_repository)")
            tmp = allo + ".dev.tmp"
            P.run(["ld", "-r", "-o", tmp] + stock + mine)
            os.replace(tmp, allo)
            keep = max(st.st_mtime_ns, newest_mine)
            os.utime(allo, ns=(keep, keep))
            st = os.stat(allo)
            open(stamp, "w").write("%d %d %d" % (st.st_mtime_ns, st.st_size, newest_mine))
    return allo


if __name__ == "__main__":
    P.ensure("Bdev")
    print(prebuild({"variant": "Bdev"}))
