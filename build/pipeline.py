#!/usr/bin/env python3
"""Build pipeline (DESIGN 3.1): plain build A -> instrumented objects B -> parsec_all.o.

Everything is rebuilt from /repo's *current working tree* on every invocation
(incrementally: cmake/ninja/depfiles decide what is stale).  All output lives in
/verif/_work (git-ignored).  A file lock serialises concurrent checks.
"""
import fcntl, json, os, shlex, subprocess, sys, time, hashlib

VERIF = os.path.dirname(os.path.dirname(os.path.abspath(__file__)))
REPO = os.environ.get("VERIF_REPO", "/repo")
WORK = os.environ.get("VERIF_WORK", os.path.join(VERIF, "_work"))
A = os.path.join(WORK, "A")
B = os.path.join(WORK, "B")
GUARD = "PARSEC_VERIF_SIM"

INSTR = ["-fsanitize=thread", "--param", "tsan-instrument-func-entry-exit=0",
         "--param", "tsan-distinguish-volatile=1"]


def log(*a):
    print("[build]", *a, file=sys.stderr, flush=True)


def run(cmd, **kw):
    r = subprocess.run(cmd, stdout=subprocess.PIPE, stderr=subprocess.STDOUT, text=True, **kw)
    if r.returncode != 0:
        sys.stderr.write(r.stdout[-8000:])
        raise SystemExit("[build] FAILED: %s" % (cmd if isinstance(cmd, str) else " ".join(cmd)))
    return r.stdout


class Lock:
    def __enter__(self):
        os.makedirs(WORK, exist_ok=True)
        self.f = open(os.path.join(WORK, ".lock"), "w")
        fcntl.flock(self.f, fcntl.LOCK_EX)
        return self

    def __exit__(self, *a):
        fcntl.flock(self.f, fcntl.LOCK_UN)
        self.f.close()


def configure_and_build_A():
    os.makedirs(A, exist_ok=True)
    if not os.path.exists(os.path.join(A, "build.ninja")):
        log("cmake configure", A)
        run(["cmake", "-G", "Ninja", "-S", REPO, "-B", A,
             "-DCMAKE_BUILD_TYPE=RelWithDebInfo",
             "-DCMAKE_C_FLAGS=-Wno-error -D%s" % GUARD,
             "-DCMAKE_EXPORT_COMPILE_COMMANDS=ON",
             "-DBUILD_TESTING=OFF", "-DBUILD_TOOLS=OFF", "-DSUPPORT_FORTRAN=OFF",
             "-DBUILD_SHARED_LIBS=ON",
             "-DPARSEC_DIST_WITH_MPI=ON",
             "-DPARSEC_GPU_WITH_CUDA=OFF", "-DPARSEC_GPU_WITH_HIP=OFF",
             "-DPARSEC_GPU_WITH_LEVEL_ZERO=OFF",
             "-DPARSEC_PROF_TRACE=OFF"])
    log("ninja parsec parsec-ptgpp")
    run(["ninja", "-C", A, "parsec", "parsec-ptgpp"])


def parsec_entries():
    cc = json.load(open(os.path.join(A, "compile_commands.json")))
    out = []
    for e in cc:
        cmd = e["command"]
        if "/parsec.dir/" not in cmd:
            continue
        out.append(e)
    return out


def rewrite(entry, extra):
    """Return (objpath, command list) for the instrumented compile of one entry."""
    args = shlex.split(entry["command"])
    src = entry["file"]
    res = []
    i = 0
    obj = None
    while i < len(args):
        a = args[i]
        if a == "-o":
            obj = args[i + 1]
            i += 2
            continue
        if a in ("-MD", "-MMD"):
            i += 1
            continue
        if a in ("-MT", "-MF", "-MQ"):
            i += 2
            continue
        if a == "-c":
            i += 1
            continue
        if a == src or os.path.abspath(os.path.join(entry["directory"], a)) == src:
            i += 1
            continue
        res.append(a)
        i += 1
    name = obj.split("/parsec.dir/")[1].replace("/", "_")
    return name, res + extra, src, entry["directory"]


def build_B(variant="B", extra_defs=()):
    """(Re)compile every libparsec source with tsan-style instrumentation via ninja."""
    bdir = os.path.join(WORK, variant)
    os.makedirs(bdir, exist_ok=True)
    ents = parsec_entries()
    lines = ["rule cc", "  command = cd $dir && $cmd -MD -MF $out.d -c $in -o $out",
             "  depfile = $out.d", "  deps = gcc", "  description = ICC $out", ""]
    objs = []
    for e in ents:
        name, cmd, src, d = rewrite(e, INSTR + list(extra_defs))
        o = os.path.join(bdir, name)
        objs.append(o)
        lines.append("build %s: cc %s" % (o, src))
        lines.append("  dir = %s" % d)
        lines.append("  cmd = %s" % " ".join(shlex.quote(x) for x in cmd))
    allo = os.path.join(bdir, "parsec_all.o")
    lines.append("rule ldr")
    lines.append("  command = ld -r -o $out $in")
    lines.append("build %s: ldr %s" % (allo, " ".join(objs)))
    arch = os.path.join(bdir, "libparsec_b.a")
    lines.append("rule ar")
    lines.append("  command = rm -f $out && ar rcs $out $in")
    lines.append("build %s: ar %s" % (arch, " ".join(objs)))
    lines.append("default %s %s" % (allo, arch))
    nf = os.path.join(bdir, "build.ninja")
    txt = "\n".join(lines) + "\n"
    if not os.path.exists(nf) or open(nf).read() != txt:
        open(nf, "w").write(txt)
    log("instrumented objects", variant)
    run(["ninja", "-C", bdir])
    # generic compile flags for harness shims: take them from parsec.c's entry
    for e in ents:
        if e["file"].endswith("/parsec/parsec.c"):
            _, cmd, _, _ = rewrite(e, [])
            flags = [x for x in cmd[1:]]
            json.dump({"cc": cmd[0], "flags": flags, "instr": INSTR},
                      open(os.path.join(bdir, "cflags.json"), "w"))
    return allo


def ensure(variant="B"):
    t0 = time.time()
    with Lock():
        configure_and_build_A()
        allo = build_B(variant)
    log("ready in %.1fs" % (time.time() - t0))
    return allo


def cflags(variant="B"):
    return json.load(open(os.path.join(WORK, variant, "cflags.json")))


if __name__ == "__main__":
    print(ensure())
