#!/usr/bin/env python3
"""Builder for the typed-flow PTG harness (C18): gen/typed/gen.py -> JDF programs + class tables ->
real ptgpp -> sources handed to build_ranked() by check (through the registry entry's `prebuild` hook).

build_ptg() of build/harness.py builds ONE generated program per binary around ptg_driver.c/ptg.c; this
harness links SEVERAL ptgpp-generated programs and its own driver into one binary, hence this small builder."""
import os, sys
from . import pipeline as P
from . import harness as HB

VERIF = P.VERIF
NAME = "typed"


def prebuild(spec):
    """fills spec['instr'], spec['plain'], spec['defines'] with absolute paths (check joins them onto VERIF,
    which leaves absolute paths alone)"""
    hdir = os.path.join(P.WORK, "H", NAME)
    os.makedirs(hdir, exist_ok=True)
    gen = os.path.join(VERIF, "gen/typed/gen.py")
    ptgpp = os.path.join(P.A, "parsec/interfaces/ptg/ptg-compiler/parsec-ptgpp")
    ref = os.path.join(hdir, "typed_ref.c")
    stamp = os.path.join(hdir, "programs.txt")
    if HB._newer(stamp, [gen]) or not os.path.exists(ref):
        names = HB._run([sys.executable, gen, hdir]).split()
        open(stamp, "w").write(" ".join(names) + "\n")
    names = open(stamp).read().split()
    cfiles = []
    for n in names:
        jdf = os.path.join(hdir, n + ".jdf")
        cfile = os.path.join(hdir, n + ".c")
        if HB._newer(cfile, [jdf, ptgpp]):
            HB._run([ptgpp, "-E", "-i", jdf, "-o", os.path.join(hdir, n), "-f", n, "-M", "dynamic-hash-table"])
        cfiles.append(cfile)
    spec["instr"] = [os.path.join(VERIF, "harness/l2/typed_driver.c")] + cfiles
    spec["plain"] = [os.path.join(VERIF, "harness/l2/typed.c"), ref]
    spec["defines"] = ["-I" + hdir]
    return spec
