/* simmpi: the MPI subset PaRSEC uses, over an in-process simulated network (DESIGN 3.3).
 *
 * Built against OpenMPI's mpi.h (which leaves the handle struct types opaque); libmpi is NOT
 * linked: this file defines the MPI_* functions and the predefined handle objects.
 * All state is protected by simcore's baton (only one simulated thread runs at a time).
 * The calling rank is sim_rank() of the calling sim-thread.
 *
 * Compiled WITHOUT instrumentation: every MPI call is one atomic step (plus an explicit
 * scheduling point at entry).
 */
#define _GNU_SOURCE
#include <mpi.h>
#include <stdint.h>
#include <stdio.h>
#include <stdlib.h>
#include <string.h>
#include <unistd.h>
#include "../core/sim.h"
#include "simmpi.h"

#define MAXR SIMMPI_MAX_RANKS

/* ------------------------------------------------------------------ handle types */
typedef struct run { ptrdiff_t off; size_t len; } run_t;

struct ompi_datatype_t {
    int magic;
    size_t size;
    ptrdiff_t lb, extent;
    int nruns;
    run_t *runs;
    char name[MPI_MAX_OBJECT_NAME];
    int combiner;
    int predefined;
    int refs;
};
struct ompi_predefined_datatype_t { struct ompi_datatype_t d; };

struct ompi_communicator_t {
    int magic;
    int id;
    int is_self, is_null;
    int size;
    int ranks[MAXR];            /* world ranks of members (is_self: resolved at call time) */
    int overtaking;
    int freed[MAXR];
    int dup_seq[MAXR];          /* per-rank count of dups issued on this communicator */
    struct ompi_communicator_t *children[256];
    int nchildren;
    /* self-communicator children are per rank */
    struct ompi_communicator_t *self_children[MAXR][16];
    int owner;                  /* for per-rank comms (derived from SELF / split_type): world rank */
    /* collectives */
    int coll_seq[MAXR];
    struct coll_slot *slots;
    uint64_t last_arr[MAXR][MAXR];
};
struct ompi_predefined_communicator_t { struct ompi_communicator_t c; };

struct ompi_info_t { int magic; int overtaking; };
struct ompi_predefined_info_t { struct ompi_info_t i; };
struct ompi_op_t { int magic; int kind; };
struct ompi_predefined_op_t { struct ompi_op_t o; };

typedef struct msg {
    int src, dst, tag;
    struct ompi_communicator_t *comm;
    uint64_t seq, t_arr;
    size_t nbytes;
    char *data;                 /* packed payload; NULL for rendezvous until matched */
    const void *sbuf; int scount; struct ompi_datatype_t *stype;
    struct ompi_request_t *sreq;
    int am;                     /* blocking MPI_Send (always eager-buffered) */
    struct msg *next;
} msg_t;

struct ompi_request_t {
    int magic;
    int kind;                   /* 0 send, 1 recv */
    int persistent, active, complete, cancelled, matched;
    int owner;
    struct ompi_communicator_t *comm;
    int peer, tag;
    void *buf; int count; struct ompi_datatype_t *type;
    MPI_Status st;
    uint64_t complete_at;
    uint64_t post_seq;
    struct ompi_request_t *next_posted;
};
struct ompi_predefined_request_t { struct ompi_request_t r; };

typedef struct coll_slot {
    int seq;
    int arrived;
    int done;
    int left;
    const void *sbuf[MAXR];
    void *rbuf[MAXR];
    int count;
    struct ompi_datatype_t *type;
    struct ompi_op_t *op;
    int kind, root;
    struct coll_slot *next;
} coll_slot_t;

#define MAGIC_DT 0x44540001
#define MAGIC_COMM 0x434f0001
#define MAGIC_REQ 0x52510001

/* ------------------------------------------------------------------ predefined objects */
#define PRE_DT(sym, sz, nm) struct ompi_predefined_datatype_t sym = {{MAGIC_DT, sz, 0, sz, -1, NULL, nm, MPI_COMBINER_NAMED, 1, 1}};
PRE_DT(ompi_mpi_byte, 1, "MPI_BYTE")
PRE_DT(ompi_mpi_packed, 1, "MPI_PACKED")
PRE_DT(ompi_mpi_char, 1, "MPI_CHAR")
PRE_DT(ompi_mpi_signed_char, 1, "MPI_SIGNED_CHAR")
PRE_DT(ompi_mpi_unsigned_char, 1, "MPI_UNSIGNED_CHAR")
PRE_DT(ompi_mpi_short, 2, "MPI_SHORT")
PRE_DT(ompi_mpi_unsigned_short, 2, "MPI_UNSIGNED_SHORT")
PRE_DT(ompi_mpi_int, 4, "MPI_INT")
PRE_DT(ompi_mpi_unsigned, 4, "MPI_UNSIGNED")
PRE_DT(ompi_mpi_long, 8, "MPI_LONG")
PRE_DT(ompi_mpi_unsigned_long, 8, "MPI_UNSIGNED_LONG")
PRE_DT(ompi_mpi_long_long_int, 8, "MPI_LONG_LONG_INT")
PRE_DT(ompi_mpi_unsigned_long_long, 8, "MPI_UNSIGNED_LONG_LONG")
PRE_DT(ompi_mpi_float, 4, "MPI_FLOAT")
PRE_DT(ompi_mpi_double, 8, "MPI_DOUBLE")
PRE_DT(ompi_mpi_int8_t, 1, "MPI_INT8_T")
PRE_DT(ompi_mpi_uint8_t, 1, "MPI_UINT8_T")
PRE_DT(ompi_mpi_int16_t, 2, "MPI_INT16_T")
PRE_DT(ompi_mpi_uint16_t, 2, "MPI_UINT16_T")
PRE_DT(ompi_mpi_int32_t, 4, "MPI_INT32_T")
PRE_DT(ompi_mpi_uint32_t, 4, "MPI_UINT32_T")
PRE_DT(ompi_mpi_int64_t, 8, "MPI_INT64_T")
PRE_DT(ompi_mpi_uint64_t, 8, "MPI_UINT64_T")
PRE_DT(ompi_mpi_c_float_complex, 8, "MPI_C_FLOAT_COMPLEX")
PRE_DT(ompi_mpi_c_double_complex, 16, "MPI_C_DOUBLE_COMPLEX")
PRE_DT(ompi_mpi_c_complex, 8, "MPI_C_COMPLEX")
PRE_DT(ompi_mpi_aint, 8, "MPI_AINT")
struct ompi_predefined_datatype_t ompi_mpi_datatype_null = {{MAGIC_DT, 0, 0, 0, -1, NULL, "MPI_DATATYPE_NULL", MPI_COMBINER_NAMED, 1, 1}};

struct ompi_predefined_communicator_t ompi_mpi_comm_world = {{.magic = MAGIC_COMM, .id = 0}};
struct ompi_predefined_communicator_t ompi_mpi_comm_self = {{.magic = MAGIC_COMM, .id = 1, .is_self = 1, .size = 1}};
struct ompi_predefined_communicator_t ompi_mpi_comm_null = {{.magic = MAGIC_COMM, .id = -1, .is_null = 1}};
struct ompi_predefined_request_t ompi_request_null = {{.magic = MAGIC_REQ}};
struct ompi_predefined_info_t ompi_mpi_info_null;
enum { OP_MAX = 1, OP_MIN, OP_SUM, OP_PROD, OP_LAND, OP_BAND, OP_LOR, OP_BOR };
struct ompi_predefined_op_t ompi_mpi_op_max = {{1, OP_MAX}}, ompi_mpi_op_min = {{1, OP_MIN}}, ompi_mpi_op_sum = {{1, OP_SUM}},
    ompi_mpi_op_prod = {{1, OP_PROD}}, ompi_mpi_op_land = {{1, OP_LAND}}, ompi_mpi_op_band = {{1, OP_BAND}},
    ompi_mpi_op_lor = {{1, OP_LOR}}, ompi_mpi_op_bor = {{1, OP_BOR}}, ompi_mpi_op_null = {{1, 0}};

/* ------------------------------------------------------------------ global state */
static struct {
    int nranks;
    int inited[MAXR], finalized[MAXR], provided[MAXR];
    msg_t *inbox[MAXR];                 /* unmatched messages, sorted by (t_arr, seq) */
    struct ompi_request_t *posted[MAXR], *posted_tail[MAXR];
    struct ompi_request_t *sendq;       /* incomplete send requests (for ext timer) */
    uint64_t seq, post_seq;
    uint64_t send_seq[MAXR];
    uint64_t testsome_calls[MAXR];
    int next_comm_id;
    int tag_ub;
    simmpi_cfg_t cfg;
    simmpi_stats_t st;
    uint64_t seed;
    simmpi_tap_fn tap;
    int thread_level;
    int debug;
} M;

static inline int myrank(void) { int r = sim_rank(); return (r >= 0 && r < MAXR) ? r : 0; }

/* stateless decision: hash of (seed, kind, a, b) */
static uint64_t ndec(uint64_t kind, uint64_t a, uint64_t b)
{
    uint64_t s = M.seed ^ (kind * 0x9E3779B97F4A7C15ULL) ^ (a * 0xC2B2AE3D27D4EB4FULL) ^ (b * 0x165667B19E3779F9ULL);
    return sim_splitmix(&s);
}
static double ndec_unit(uint64_t kind, uint64_t a, uint64_t b) { return (double)(ndec(kind, a, b) >> 11) / 9007199254740992.0; }

void simmpi_reset(int nranks, uint64_t seed, const simmpi_cfg_t *cfg)
{
    /* free leftovers (only matters for in-process multi-run harnesses) */
    for (int r = 0; r < MAXR; r++) {
        for (msg_t *m = M.inbox[r]; m;) { msg_t *n = m->next; free(m->data); free(m); m = n; }
    }
    memset(&M, 0, sizeof(M));
    M.nranks = nranks;
    M.seed = seed;
    M.next_comm_id = 2;
    if (cfg) M.cfg = *cfg;
    else {
        M.cfg.lat_base_ns = 1000; M.cfg.lat_jitter_ns = 2000; M.cfg.eager_limit = 65536;
    }
    M.tag_ub = M.cfg.tag_ub > 0 ? M.cfg.tag_ub : 0x7fffffff;
    M.thread_level = M.cfg.thread_level ? M.cfg.thread_level : MPI_THREAD_MULTIPLE;
    struct ompi_communicator_t *w = &ompi_mpi_comm_world.c;
    memset(w, 0, sizeof(*w));
    w->magic = MAGIC_COMM; w->id = 0; w->size = nranks;
    for (int i = 0; i < nranks; i++) w->ranks[i] = i;
    struct ompi_communicator_t *s = &ompi_mpi_comm_self.c;
    memset(s, 0, sizeof(*s));
    s->magic = MAGIC_COMM; s->id = 1; s->is_self = 1; s->size = 1;
    sim_set_ext_timer(simmpi_next_event);
    M.debug = getenv("VERIF_MPI_TRACE") != NULL;
}
void simmpi_set_tap(simmpi_tap_fn f) { M.tap = f; }
const simmpi_stats_t *simmpi_stats(void) { return &M.st; }
int simmpi_inflight(void)
{
    int n = 0;
    for (int r = 0; r < M.nranks; r++) for (msg_t *m = M.inbox[r]; m; m = m->next) n++;
    return n;
}
int simmpi_inflight_tag(int comm_id, int tag)
{
    int n = 0;
    for (int r = 0; r < M.nranks; r++) for (msg_t *m = M.inbox[r]; m; m = m->next)
        if ((comm_id < 0 || m->comm->id == comm_id) && (tag < 0 || m->tag == tag)) n++;
    return n;
}

uint64_t simmpi_next_event(void)
{
    uint64_t now = sim_now(), best = UINT64_MAX;
    for (int r = 0; r < M.nranks; r++)
        for (msg_t *m = M.inbox[r]; m; m = m->next) {
            if (m->t_arr > now) { if (m->t_arr < best) best = m->t_arr; break; } /* sorted */
        }
    for (struct ompi_request_t *q = M.sendq; q; q = q->next_posted)
        if (q->complete && q->complete_at > now && q->complete_at < best) best = q->complete_at;
    return best;
}

/* ------------------------------------------------------------------ datatypes */
static struct ompi_datatype_t *dt_new(int combiner)
{
    struct ompi_datatype_t *d = calloc(1, sizeof(*d));
    d->magic = MAGIC_DT; d->combiner = combiner; d->refs = 1;
    return d;
}
static int dt_nruns(const struct ompi_datatype_t *d) { return d->nruns < 0 ? (d->size ? 1 : 0) : d->nruns; }
static run_t dt_run(const struct ompi_datatype_t *d, int i)
{
    if (d->nruns < 0) return (run_t){0, d->size};
    return d->runs[i];
}
typedef struct { run_t *r; int n, cap; ptrdiff_t lb, ub; int any; } rb_t;
static void rb_add(rb_t *b, ptrdiff_t off, size_t len)
{
    if (!len) return;
    if (b->n && b->r[b->n - 1].off + (ptrdiff_t)b->r[b->n - 1].len == off) { b->r[b->n - 1].len += len; return; }
    if (b->n == b->cap) { b->cap = b->cap ? b->cap * 2 : 16; b->r = realloc(b->r, b->cap * sizeof(run_t)); }
    b->r[b->n++] = (run_t){off, len};
}
/* append `count` consecutive copies of old starting at byte displacement disp */
static void rb_block(rb_t *b, const struct ompi_datatype_t *old, ptrdiff_t disp, int count)
{
    for (int i = 0; i < count; i++) {
        ptrdiff_t base = disp + (ptrdiff_t)i * old->extent;
        int n = dt_nruns(old);
        for (int k = 0; k < n; k++) { run_t r = dt_run(old, k); rb_add(b, base + r.off, r.len); }
    }
    if (count > 0) {
        ptrdiff_t lo = disp + old->lb, hi = disp + old->lb + old->extent;
        ptrdiff_t lo2 = disp + (ptrdiff_t)(count - 1) * old->extent + old->lb, hi2 = lo2 + old->extent;
        if (lo2 < lo) lo = lo2;
        if (hi2 > hi) hi = hi2;
        if (old->extent < 0) { ptrdiff_t t = lo; lo = hi; hi = t; if (lo > hi) { t = lo; lo = hi; hi = t; } }
        if (!b->any || lo < b->lb) b->lb = lo;
        if (!b->any || hi > b->ub) b->ub = hi;
        b->any = 1;
    }
}
static struct ompi_datatype_t *dt_finish(rb_t *b, int combiner)
{
    struct ompi_datatype_t *d = dt_new(combiner);
    d->runs = b->r; d->nruns = b->n;
    size_t sz = 0;
    for (int i = 0; i < b->n; i++) sz += b->r[i].len;
    d->size = sz;
    d->lb = b->any ? b->lb : 0;
    d->extent = b->any ? b->ub - b->lb : 0;
    snprintf(d->name, sizeof(d->name), "%s", "");
    return d;
}
int MPI_Type_contiguous(int count, MPI_Datatype old, MPI_Datatype *nt)
{
    rb_t b = {0};
    rb_block(&b, old, 0, count);
    *nt = dt_finish(&b, MPI_COMBINER_CONTIGUOUS);
    return MPI_SUCCESS;
}
int MPI_Type_vector(int count, int bl, int stride, MPI_Datatype old, MPI_Datatype *nt)
{
    rb_t b = {0};
    for (int j = 0; j < count; j++) rb_block(&b, old, (ptrdiff_t)j * stride * old->extent, bl);
    *nt = dt_finish(&b, MPI_COMBINER_VECTOR);
    return MPI_SUCCESS;
}
int MPI_Type_create_hvector(int count, int bl, MPI_Aint stride, MPI_Datatype old, MPI_Datatype *nt)
{
    rb_t b = {0};
    for (int j = 0; j < count; j++) rb_block(&b, old, (ptrdiff_t)j * stride, bl);
    *nt = dt_finish(&b, MPI_COMBINER_HVECTOR);
    return MPI_SUCCESS;
}
int MPI_Type_indexed(int count, const int bls[], const int disps[], MPI_Datatype old, MPI_Datatype *nt)
{
    rb_t b = {0};
    for (int j = 0; j < count; j++) rb_block(&b, old, (ptrdiff_t)disps[j] * old->extent, bls[j]);
    *nt = dt_finish(&b, MPI_COMBINER_INDEXED);
    return MPI_SUCCESS;
}
int MPI_Type_create_indexed_block(int count, int bl, const int disps[], MPI_Datatype old, MPI_Datatype *nt)
{
    rb_t b = {0};
    for (int j = 0; j < count; j++) rb_block(&b, old, (ptrdiff_t)disps[j] * old->extent, bl);
    *nt = dt_finish(&b, MPI_COMBINER_INDEXED_BLOCK);
    return MPI_SUCCESS;
}
int MPI_Type_create_struct(int count, const int bls[], const MPI_Aint disps[], const MPI_Datatype types[], MPI_Datatype *nt)
{
    rb_t b = {0};
    for (int j = 0; j < count; j++) rb_block(&b, types[j], disps[j], bls[j]);
    *nt = dt_finish(&b, MPI_COMBINER_STRUCT);
    return MPI_SUCCESS;
}
int MPI_Type_create_resized(MPI_Datatype old, MPI_Aint lb, MPI_Aint extent, MPI_Datatype *nt)
{
    struct ompi_datatype_t *d = dt_new(MPI_COMBINER_RESIZED);
    int n = dt_nruns(old);
    d->runs = malloc(sizeof(run_t) * (n ? n : 1));
    for (int i = 0; i < n; i++) d->runs[i] = dt_run(old, i);
    d->nruns = n; d->size = old->size; d->lb = lb; d->extent = extent;
    *nt = d;
    return MPI_SUCCESS;
}
int MPI_Type_dup(MPI_Datatype old, MPI_Datatype *nt)
{
    int rc = MPI_Type_create_resized(old, old->lb, old->extent, nt);
    (*nt)->combiner = MPI_COMBINER_DUP;
    return rc;
}
int MPI_Type_commit(MPI_Datatype *t) { (void)t; return MPI_SUCCESS; }
int MPI_Type_free(MPI_Datatype *t)
{
    if (*t && !(*t)->predefined) { (*t)->magic = 0xdead; /* keep memory: messages in flight may reference it */ }
    *t = MPI_DATATYPE_NULL;
    return MPI_SUCCESS;
}
int MPI_Type_size(MPI_Datatype t, int *size) { *size = (int)t->size; return MPI_SUCCESS; }
int MPI_Type_get_extent(MPI_Datatype t, MPI_Aint *lb, MPI_Aint *extent) { *lb = t->lb; *extent = t->extent; return MPI_SUCCESS; }
int MPI_Type_get_envelope(MPI_Datatype t, int *ni, int *na, int *nd, int *combiner)
{
    *ni = *na = *nd = 0; *combiner = t->combiner;
    return MPI_SUCCESS;
}
int MPI_Type_set_name(MPI_Datatype t, const char *name) { snprintf(t->name, sizeof(t->name), "%s", name); return MPI_SUCCESS; }
int MPI_Type_get_name(MPI_Datatype t, char *name, int *len)
{
    snprintf(name, MPI_MAX_OBJECT_NAME, "%s", t->name);
    *len = (int)strlen(name);
    return MPI_SUCCESS;
}

static size_t dt_pack(const void *buf, int count, const struct ompi_datatype_t *t, char *out)
{
    size_t o = 0;
    int n = dt_nruns(t);
    for (int i = 0; i < count; i++) {
        const char *base = (const char *)buf + (ptrdiff_t)i * t->extent;
        for (int k = 0; k < n; k++) { run_t r = dt_run(t, k); memcpy(out + o, base + r.off, r.len); o += r.len; }
    }
    return o;
}
/* scatter n bytes into (buf,count,type); returns bytes consumed */
static size_t dt_unpack(const char *in, size_t nbytes, void *buf, int count, const struct ompi_datatype_t *t)
{
    size_t o = 0;
    int n = dt_nruns(t);
    for (int i = 0; i < count && o < nbytes; i++) {
        char *base = (char *)buf + (ptrdiff_t)i * t->extent;
        for (int k = 0; k < n && o < nbytes; k++) {
            run_t r = dt_run(t, k);
            size_t l = r.len;
            if (l > nbytes - o) l = nbytes - o;
            memcpy(base + r.off, in + o, l);
            o += l;
        }
    }
    return o;
}
int MPI_Pack_size(int count, MPI_Datatype t, MPI_Comm c, int *size) { (void)c; *size = (int)(t->size * (size_t)count); return MPI_SUCCESS; }
int MPI_Pack(const void *in, int count, MPI_Datatype t, void *out, int outsize, int *pos, MPI_Comm c)
{
    (void)c;
    if ((size_t)*pos + t->size * (size_t)count > (size_t)outsize) return MPI_ERR_TRUNCATE;
    *pos += (int)dt_pack(in, count, t, (char *)out + *pos);
    return MPI_SUCCESS;
}
int MPI_Unpack(const void *in, int insize, int *pos, void *out, int count, MPI_Datatype t, MPI_Comm c)
{
    (void)c;
    size_t need = t->size * (size_t)count;
    if ((size_t)*pos + need > (size_t)insize) return MPI_ERR_TRUNCATE;
    dt_unpack((const char *)in + *pos, need, out, count, t);
    *pos += (int)need;
    return MPI_SUCCESS;
}
int MPI_Get_count(const MPI_Status *st, MPI_Datatype t, int *count)
{
    if (!t->size) { *count = 0; return MPI_SUCCESS; }
    *count = (st->_ucount % t->size) ? MPI_UNDEFINED : (int)(st->_ucount / t->size);
    return MPI_SUCCESS;
}

/* ------------------------------------------------------------------ communicators */
static int comm_rank_of(struct ompi_communicator_t *c, int world)
{
    if (c->is_self) return 0;
    for (int i = 0; i < c->size; i++) if (c->ranks[i] == world) return i;
    return MPI_UNDEFINED;
}
static int comm_world_of(struct ompi_communicator_t *c, int r)
{
    if (c->is_self) return c->owner >= 0 && c != &ompi_mpi_comm_self.c ? c->owner : myrank();
    return c->ranks[r];
}
static struct ompi_communicator_t *comm_new(struct ompi_communicator_t *parent)
{
    struct ompi_communicator_t *c = calloc(1, sizeof(*c));
    c->magic = MAGIC_COMM;
    c->id = M.next_comm_id++;
    c->size = parent->size;
    c->is_self = parent->is_self;
    memcpy(c->ranks, parent->ranks, sizeof(c->ranks));
    c->owner = -1;
    return c;
}
static struct ompi_communicator_t *comm_dup(struct ompi_communicator_t *p, int overtaking)
{
    int me = myrank();
    if (p->is_self) {
        struct ompi_communicator_t *c = comm_new(p);
        c->owner = me;
        c->overtaking = overtaking;
        return c;
    }
    int k = p->dup_seq[me]++;
    if (k >= 256) { fprintf(stderr, "[simmpi] too many dups\n"); _exit(2); }
    if (!p->children[k]) {
        p->children[k] = comm_new(p);
        p->children[k]->overtaking = overtaking;
    }
    return p->children[k];
}
int MPI_Comm_dup(MPI_Comm c, MPI_Comm *n) { sim_point(); *n = comm_dup(c, 0); return MPI_SUCCESS; }
int MPI_Comm_dup_with_info(MPI_Comm c, MPI_Info info, MPI_Comm *n)
{
    sim_point();
    *n = comm_dup(c, info && info != MPI_INFO_NULL ? info->overtaking : 0);
    return MPI_SUCCESS;
}
int MPI_Comm_split_type(MPI_Comm c, int type, int key, MPI_Info info, MPI_Comm *n)
{
    (void)type; (void)key; (void)info; (void)c;
    /* every simulated rank is its own shared-memory node */
    struct ompi_communicator_t *s = comm_new(&ompi_mpi_comm_self.c);
    s->is_self = 1; s->size = 1; s->owner = myrank();
    *n = s;
    return MPI_SUCCESS;
}
int MPI_Comm_free(MPI_Comm *c)
{
    if (*c && !(*c)->is_null) (*c)->freed[myrank()] = 1;
    *c = MPI_COMM_NULL;
    return MPI_SUCCESS;
}
int MPI_Comm_size(MPI_Comm c, int *s) { *s = c->is_self ? 1 : c->size; return MPI_SUCCESS; }
int MPI_Comm_rank(MPI_Comm c, int *r) { *r = comm_rank_of(c, myrank()); return MPI_SUCCESS; }
int MPI_Comm_get_attr(MPI_Comm c, int keyval, void *val, int *flag)
{
    (void)c;
    if (keyval == MPI_TAG_UB) { *(int **)val = &M.tag_ub; *flag = 1; }
    else *flag = 0;
    return MPI_SUCCESS;
}
int MPI_Comm_set_errhandler(MPI_Comm c, MPI_Errhandler e) { (void)c; (void)e; return MPI_SUCCESS; }
int MPI_Comm_compare(MPI_Comm a, MPI_Comm b, int *res) { *res = a == b ? MPI_IDENT : MPI_UNEQUAL; return MPI_SUCCESS; }

int MPI_Info_create(MPI_Info *i) { *i = calloc(1, sizeof(struct ompi_info_t)); return MPI_SUCCESS; }
int MPI_Info_set(MPI_Info i, const char *k, const char *v)
{
    if (!strcmp(k, "mpi_assert_allow_overtaking") && !strcmp(v, "true")) i->overtaking = 1;
    return MPI_SUCCESS;
}
int MPI_Info_free(MPI_Info *i) { free(*i); *i = MPI_INFO_NULL; return MPI_SUCCESS; }

/* ------------------------------------------------------------------ init */
int MPI_Init_thread(int *argc, char ***argv, int req, int *prov)
{
    (void)argc; (void)argv;
    M.inited[myrank()] = 1;
    /* cfg.thread_level unset: the requested level is provided (what OpenMPI does).  Set: the library provides that
     * level whatever was requested (the standard allows a higher level than required, and a lower one) */
    *prov = M.cfg.thread_level ? M.cfg.thread_level : req;
    M.provided[myrank()] = *prov;
    return MPI_SUCCESS;
}
int MPI_Init(int *argc, char ***argv) { int p; return MPI_Init_thread(argc, argv, MPI_THREAD_SINGLE, &p); }
int MPI_Initialized(int *f) { *f = M.inited[myrank()]; return MPI_SUCCESS; }
int MPI_Finalized(int *f) { *f = M.finalized[myrank()]; return MPI_SUCCESS; }
int MPI_Finalize(void) { M.finalized[myrank()] = 1; return MPI_SUCCESS; }
int MPI_Query_thread(int *p) { *p = M.provided[myrank()]; return MPI_SUCCESS; }
int MPI_Abort(MPI_Comm c, int code)
{
    (void)c;
    fprintf(stderr, "[simmpi] MPI_Abort(%d) called by rank %d\n", code, myrank());
    fflush(NULL);
    abort();
}
double MPI_Wtime(void) { return (double)sim_now() * 1e-9; }
int MPI_Get_processor_name(char *n, int *l) { snprintf(n, MPI_MAX_PROCESSOR_NAME, "simnode%d", myrank()); *l = (int)strlen(n); return MPI_SUCCESS; }
int MPI_Error_string(int e, char *s, int *l) { snprintf(s, MPI_MAX_ERROR_STRING, "simmpi error %d", e); *l = (int)strlen(s); return MPI_SUCCESS; }

/* ------------------------------------------------------------------ point-to-point */
static uint64_t draw_latency(int src, int dst, uint64_t sseq, size_t nbytes)
{
    double u = ndec_unit(1, ((uint64_t)src << 32) | (uint64_t)dst, sseq);
    uint64_t lat = M.cfg.lat_base_ns + (uint64_t)(u * (double)M.cfg.lat_jitter_ns);
    if (M.cfg.heavy_tail_pct && ndec(2, ((uint64_t)src << 32) | (uint64_t)dst, sseq) % 100 < (uint64_t)M.cfg.heavy_tail_pct) {
        lat *= 20 + ndec(3, src, sseq) % 80;
        M.st.heavy_delay++;
    }
    if (M.cfg.slow_link_mask & (1u << ((src * 7 + dst) % 31))) lat *= 8;
    lat += (uint64_t)((double)nbytes * M.cfg.ns_per_byte);
    M.st.delay++;
    return lat ? lat : 1;
}

static void inbox_insert(msg_t *m)
{
    msg_t **pp = &M.inbox[m->dst];
    while (*pp && ((*pp)->t_arr < m->t_arr || ((*pp)->t_arr == m->t_arr && (*pp)->seq < m->seq))) pp = &(*pp)->next;
    m->next = *pp;
    *pp = m;
}

static void sendq_remove(struct ompi_request_t *q)
{
    struct ompi_request_t **pp = &M.sendq;
    while (*pp && *pp != q) pp = &(*pp)->next_posted;
    if (*pp) *pp = q->next_posted;
    q->next_posted = NULL;
}

static int match_ok(struct ompi_request_t *rq, msg_t *m)
{
    if (rq->comm != m->comm) return 0;
    if (rq->tag != MPI_ANY_TAG && rq->tag != m->tag) return 0;
    if (rq->peer != MPI_ANY_SOURCE && comm_world_of(rq->comm, rq->peer) != m->src) return 0;
    return 1;
}

static void deliver(struct ompi_request_t *rq, msg_t *m)
{
    uint64_t now = sim_now();
    char *data = m->data, *tmp = NULL;
    if (!data) {                        /* rendezvous: read the sender's buffer now */
        tmp = malloc(m->nbytes ? m->nbytes : 1);
        dt_pack(m->sbuf, m->scount, m->stype, tmp);
        data = tmp;
        M.st.rendezvous++;
    }
    size_t cap = rq->type->size * (size_t)rq->count;
    size_t n = m->nbytes;
    rq->st.MPI_ERROR = MPI_SUCCESS;
    if (n > cap) { rq->st.MPI_ERROR = MPI_ERR_TRUNCATE; n = cap; M.st.truncations++; }
    dt_unpack(data, n, rq->buf, rq->count, rq->type);
    rq->st.MPI_SOURCE = comm_rank_of(m->comm, m->src);
    rq->st.MPI_TAG = m->tag;
    rq->st._ucount = n;
    rq->st._cancelled = 0;
    rq->complete = 1;
    rq->matched = 1;
    rq->complete_at = now;
    if (M.debug) fprintf(stderr, "[simmpi] deliver into req %p (owner %d persistent %d post_seq %llu)\n", (void *)rq, rq->owner, rq->persistent, (unsigned long long)rq->post_seq);
    if (M.debug) fprintf(stderr, "[simmpi t=%llu] DELIVER #%llu %d->%d comm=%d tag=%d bytes=%zu into %s req (tag %d)\n", (unsigned long long)now, (unsigned long long)m->seq, m->src, m->dst, m->comm->id, m->tag, m->nbytes, rq->persistent ? "persistent" : "irecv", rq->tag);
    if (M.tap) M.tap(SIMMPI_EV_DELIVER, m->src, m->dst, m->comm->id, m->tag, data, m->nbytes, m->seq);
    M.st.delivered++;
    if (m->sreq) {
        struct ompi_request_t *s = m->sreq;
        s->complete = 1;
        uint64_t late = 0;
        if (M.cfg.late_send_pct && ndec(4, m->src, m->seq) % 100 < (uint64_t)M.cfg.late_send_pct) {
            late = 1000 + ndec(5, m->src, m->seq) % 50000;
            M.st.late_send_completion++;
        }
        s->complete_at = now + late;
    }
    free(tmp);
    free(m->data);
    free(m);
}

static void unpost(struct ompi_request_t *rq)
{
    int r = rq->owner;
    struct ompi_request_t **pp = &M.posted[r], *prev = NULL;
    while (*pp && *pp != rq) { prev = *pp; pp = &(*pp)->next_posted; }
    if (*pp) {
        *pp = rq->next_posted;
        if (M.posted_tail[r] == rq) M.posted_tail[r] = prev;
    }
    rq->next_posted = NULL;
}

/* match arrived messages of rank r against its posted receives */
static void progress(int r)
{
    uint64_t now = sim_now();
    msg_t **pp = &M.inbox[r];
    while (*pp && (*pp)->t_arr <= now) {
        msg_t *m = *pp;
        struct ompi_request_t *rq = M.posted[r];
        while (rq && !match_ok(rq, m)) rq = rq->next_posted;
        if (rq) {
            *pp = m->next;
            unpost(rq);
            deliver(rq, m);
        } else pp = &m->next;
    }
}

static void post_recv(struct ompi_request_t *rq)
{
    int r = rq->owner;
    uint64_t now = sim_now();
    /* messages that arrived before this post must first be matched against the receives that were
     * already posted (MPI matches in posting order); only what is left is 'unexpected' */
    progress(r);
    rq->active = 1; rq->complete = 0; rq->cancelled = 0; rq->matched = 0;
    rq->post_seq = ++M.post_seq;
    /* unexpected queue first */
    msg_t **pp = &M.inbox[r];
    while (*pp && (*pp)->t_arr <= now) {
        msg_t *m = *pp;
        if (match_ok(rq, m)) { *pp = m->next; M.st.unexpected_matched++; deliver(rq, m); return; }
        pp = &m->next;
    }
    rq->next_posted = NULL;
    if (M.posted_tail[r]) M.posted_tail[r]->next_posted = rq; else M.posted[r] = rq;
    M.posted_tail[r] = rq;
}

static struct ompi_request_t *req_new(int kind)
{
    struct ompi_request_t *q = calloc(1, sizeof(*q));
    q->magic = MAGIC_REQ; q->kind = kind; q->owner = myrank();
    return q;
}

/* MPI errors are fatal (MPI_ERRORS_ARE_FATAL is what PaRSEC runs with): report them as a verdict of the run */
void hx_abort_run(const char *vclass, const char *detail) __attribute__((weak));
static void mpi_fatal(const char *call, const char *what)
{
    char msg[256];
    snprintf(msg, sizeof(msg), "%s on rank %d: %s (a real MPI aborts the job here: MPI_ERRORS_ARE_FATAL)", call, myrank(), what);
    if (hx_abort_run) hx_abort_run("mpi-error", msg);
    fprintf(stderr, "[simmpi] %s\n", msg);
    abort();
}
static void check_dt(const char *call, const struct ompi_datatype_t *t)
{
    if (!t || t->magic != MAGIC_DT) mpi_fatal(call, "invalid datatype (MPI_ERR_TYPE: freed or garbage handle)");
    if (t == &ompi_mpi_datatype_null.d) mpi_fatal(call, "invalid datatype (MPI_ERR_TYPE: MPI_DATATYPE_NULL)");
}
static void check_comm(const char *call, const struct ompi_communicator_t *c)
{
    if (!c || c->magic != MAGIC_COMM || c->is_null) mpi_fatal(call, "invalid communicator (MPI_ERR_COMM)");
}

static void do_send(const void *buf, int count, MPI_Datatype t, int dest, int tag, MPI_Comm c, struct ompi_request_t *sreq, int am)
{
    check_comm(am ? "MPI_Send" : "MPI_Isend", c);
    check_dt(am ? "MPI_Send" : "MPI_Isend", t);
    if (count < 0) mpi_fatal(am ? "MPI_Send" : "MPI_Isend", "negative count (MPI_ERR_COUNT)");
    if (dest < 0 || dest >= (c->is_self ? 1 : c->size)) mpi_fatal(am ? "MPI_Send" : "MPI_Isend", "invalid destination rank (MPI_ERR_RANK)");
    int me = myrank();
    int dst = comm_world_of(c, dest);
    msg_t *m = calloc(1, sizeof(*m));
    m->src = me; m->dst = dst; m->tag = tag; m->comm = c;
    m->seq = ++M.seq;
    m->nbytes = t->size * (size_t)count;
    m->am = am;
    uint64_t sseq = ++M.send_seq[me];
    uint64_t now = sim_now();
    uint64_t arr = now + draw_latency(me, dst, sseq, m->nbytes);
    if (!c->overtaking) {
        if (arr < c->last_arr[me][dst]) arr = c->last_arr[me][dst];
        c->last_arr[me][dst] = arr;
    } else if (arr < c->last_arr[me][dst]) M.st.reorder_in_channel++;
    else c->last_arr[me][dst] = arr;
    m->t_arr = arr;
    int eager = am || m->nbytes <= (size_t)M.cfg.eager_limit;
    if (eager) {
        m->data = malloc(m->nbytes ? m->nbytes : 1);
        dt_pack(buf, count, t, m->data);
        if (sreq) { sreq->complete = 1; sreq->complete_at = now; }
        M.st.eager++;
    } else {
        m->sbuf = buf; m->scount = count; m->stype = t; m->sreq = sreq;
    }
    if (M.debug) fprintf(stderr, "[simmpi t=%llu] SEND #%llu %d->%d comm=%d tag=%d bytes=%zu %s arr=%llu\n", (unsigned long long)now, (unsigned long long)m->seq, me, dst, c->id, tag, m->nbytes, eager ? "eager" : "rndv", (unsigned long long)arr);
    if (M.tap) M.tap(SIMMPI_EV_SEND, me, dst, c->id, tag, eager ? m->data : NULL, m->nbytes, m->seq);
    M.st.sent++;
    inbox_insert(m);
}

int MPI_Send(const void *buf, int count, MPI_Datatype t, int dest, int tag, MPI_Comm c)
{
    sim_point();
    do_send(buf, count, t, dest, tag, c, NULL, 1);
    return MPI_SUCCESS;
}
int MPI_Isend(const void *buf, int count, MPI_Datatype t, int dest, int tag, MPI_Comm c, MPI_Request *req)
{
    sim_point();
    struct ompi_request_t *q = req_new(0);
    q->active = 1; q->comm = c; q->peer = dest; q->tag = tag;
    q->next_posted = M.sendq; M.sendq = q;
    do_send(buf, count, t, dest, tag, c, q, 0);
    *req = q;
    return MPI_SUCCESS;
}
int MPI_Irecv(void *buf, int count, MPI_Datatype t, int src, int tag, MPI_Comm c, MPI_Request *req)
{
    sim_point();
    check_comm("MPI_Irecv", c);
    check_dt("MPI_Irecv", t);
    struct ompi_request_t *q = req_new(1);
    q->comm = c; q->peer = src; q->tag = tag; q->buf = buf; q->count = count; q->type = t;
    post_recv(q);
    *req = q;
    return MPI_SUCCESS;
}
int MPI_Recv_init(void *buf, int count, MPI_Datatype t, int src, int tag, MPI_Comm c, MPI_Request *req)
{
    struct ompi_request_t *q = req_new(1);
    q->persistent = 1;
    q->comm = c; q->peer = src; q->tag = tag; q->buf = buf; q->count = count; q->type = t;
    *req = q;
    return MPI_SUCCESS;
}
int MPI_Start(MPI_Request *req)
{
    sim_point();
    if (M.debug) fprintf(stderr, "[simmpi t=%llu] START req %p rank %d\n", (unsigned long long)sim_now(), (void *)*req, myrank());
    post_recv(*req);
    return MPI_SUCCESS;
}
int MPI_Startall(int n, MPI_Request reqs[])
{
    sim_point();
    for (int i = 0; i < n; i++) post_recv(reqs[i]);
    return MPI_SUCCESS;
}
int MPI_Cancel(MPI_Request *req)
{
    struct ompi_request_t *q = *req;
    if (q->kind == 1 && q->active && !q->complete) {
        unpost(q);
        q->complete = 1; q->cancelled = 1; q->complete_at = sim_now();
        q->st._cancelled = 1;
    }
    return MPI_SUCCESS;
}
int MPI_Test_cancelled(const MPI_Status *st, int *flag) { *flag = st->_cancelled; return MPI_SUCCESS; }
int MPI_Request_free(MPI_Request *req)
{
    struct ompi_request_t *q = *req;
    if (q && q != &ompi_request_null.r) {
        if (q->kind == 1 && q->active && !q->complete) unpost(q);
        if (q->kind == 0) sendq_remove(q);
        q->magic = 0xdead;
        /* memory intentionally not reused immediately: a late match must not scribble */
        if (!(q->kind == 0 && !q->complete)) free(q);
    }
    *req = MPI_REQUEST_NULL;
    return MPI_SUCCESS;
}

static int req_done(struct ompi_request_t *q) { return q->active && q->complete && q->complete_at <= sim_now(); }

static void req_retire(MPI_Request *req, MPI_Status *st)
{
    struct ompi_request_t *q = *req;
    if (st && st != MPI_STATUS_IGNORE) {
        if (q->kind == 1) *st = q->st;
        else { memset(st, 0, sizeof(*st)); st->MPI_ERROR = MPI_SUCCESS; }
    }
    if (q->persistent) { q->active = 0; q->complete = 0; }
    else {
        if (q->kind == 0) sendq_remove(q);
        q->magic = 0xdead;
        free(q);
        *req = MPI_REQUEST_NULL;
    }
}

int MPI_Test(MPI_Request *req, int *flag, MPI_Status *st)
{
    sim_point();
    struct ompi_request_t *q = *req;
    if (q == &ompi_request_null.r || !q->active) { *flag = 1; if (st && st != MPI_STATUS_IGNORE) memset(st, 0, sizeof(*st)); return MPI_SUCCESS; }
    progress(myrank());
    if (req_done(q)) { *flag = 1; req_retire(req, st); }
    else *flag = 0;
    return MPI_SUCCESS;
}

int MPI_Testsome(int n, MPI_Request reqs[], int *outcount, int idx[], MPI_Status sts[])
{
    sim_point();
    int me = myrank();
    uint64_t call = ++M.testsome_calls[me];
    progress(me);
    int nact = 0, ndone = 0;
    for (int i = 0; i < n; i++) {
        struct ompi_request_t *q = reqs[i];
        if (q == &ompi_request_null.r || !q->active) continue;
        nact++;
        if (req_done(q)) ndone++;
    }
    if (!nact) { *outcount = MPI_UNDEFINED; return MPI_SUCCESS; }
    *outcount = 0;
    if (!ndone) return MPI_SUCCESS;
    /* adversities: lag (report nothing, bounded) and partial (strict non-empty subset) */
    static int lagged[MAXR];
    if (M.cfg.testsome_lag_pct && lagged[me] < M.cfg.testsome_lag_max && ndec(6, me, call) % 100 < (uint64_t)M.cfg.testsome_lag_pct) {
        lagged[me]++;
        M.st.testsome_lag++;
        return MPI_SUCCESS;
    }
    lagged[me] = 0;
    int partial = ndone > 1 && M.cfg.testsome_partial_pct && ndec(7, me, call) % 100 < (uint64_t)M.cfg.testsome_partial_pct;
    int want = partial ? 1 + (int)(ndec(8, me, call) % (uint64_t)(ndone - 1)) : ndone;
    int skip_from = partial ? (int)(ndec(9, me, call) % (uint64_t)ndone) : 0;
    if (partial) M.st.testsome_partial++;
    int k = 0, seen = 0;
    /* take the `want` completed requests starting at the skip_from-th completed one (cyclic window),
     * reported in ASCENDING index order.  The MPI standard does not specify the order of
     * array_of_indices, but every real library fills it by one ascending scan and PaRSEC's
     * mpi_no_thread_progress() relies on that when it compacts its dynamic requests (it drops a live
     * request otherwise: observed by the C14 harness with an earlier, rotated, order).  We simulate
     * what deployments meet, so the order is ascending; the reliance is noted in DESIGN.md 8.5. */
    for (int i = 0; i < n && k < want; i++) {
        struct ompi_request_t *q = reqs[i];
        if (q == &ompi_request_null.r || !q->active || !req_done(q)) continue;
        int pos = seen++;
        if ((pos - skip_from + ndone) % ndone >= want) continue;
        idx[k] = i;
        req_retire(&reqs[i], (sts && sts != MPI_STATUSES_IGNORE) ? &sts[k] : MPI_STATUS_IGNORE);
        k++;
    }
    *outcount = k;
    if (M.debug) { fprintf(stderr, "[simmpi t=%llu] TESTSOME rank %d n=%d active=%d done=%d returned=%d idx:", (unsigned long long)sim_now(), me, n, nact, ndone, k); for (int i = 0; i < k; i++) fprintf(stderr, " %d", idx[i]); fprintf(stderr, "\n"); }
    return MPI_SUCCESS;
}

static int pred_req_done(void *a)
{
    struct ompi_request_t *q = a;
    progress(q->owner);
    return req_done(q);
}
int MPI_Wait(MPI_Request *req, MPI_Status *st)
{
    struct ompi_request_t *q = *req;
    if (q == &ompi_request_null.r || !q->active) return MPI_SUCCESS;
    progress(myrank());
    if (!req_done(q)) sim_block_on(pred_req_done, q, 0, "MPI_Wait");
    req_retire(req, st);
    return MPI_SUCCESS;
}
int MPI_Waitall(int n, MPI_Request reqs[], MPI_Status sts[])
{
    for (int i = 0; i < n; i++) MPI_Wait(&reqs[i], (sts && sts != MPI_STATUSES_IGNORE) ? &sts[i] : MPI_STATUS_IGNORE);
    return MPI_SUCCESS;
}
int MPI_Recv(void *buf, int count, MPI_Datatype t, int src, int tag, MPI_Comm c, MPI_Status *st)
{
    MPI_Request q;
    MPI_Irecv(buf, count, t, src, tag, c, &q);
    return MPI_Wait(&q, st);
}
int MPI_Sendrecv(const void *sbuf, int scount, MPI_Datatype stype, int dest, int stag,
                 void *rbuf, int rcount, MPI_Datatype rtype, int src, int rtag, MPI_Comm c, MPI_Status *st)
{
    sim_point();
    int me = myrank();
    if (comm_world_of(c, dest) == me && (src == MPI_ANY_SOURCE || comm_world_of(c, src) == me) && (rtag == MPI_ANY_TAG || rtag == stag)) {
        /* local copy through the datatype engine */
        size_t n = stype->size * (size_t)scount, cap = rtype->size * (size_t)rcount;
        char *tmp = malloc(n ? n : 1);
        dt_pack(sbuf, scount, stype, tmp);
        int rc = MPI_SUCCESS;
        if (n > cap) { n = cap; rc = MPI_ERR_TRUNCATE; M.st.truncations++; }
        dt_unpack(tmp, n, rbuf, rcount, rtype);
        free(tmp);
        if (st && st != MPI_STATUS_IGNORE) { memset(st, 0, sizeof(*st)); st->MPI_SOURCE = 0; st->MPI_TAG = stag; st->_ucount = n; st->MPI_ERROR = rc; }
        M.st.self_sendrecv++;
        return rc;
    }
    MPI_Request rq, sq;
    MPI_Irecv(rbuf, rcount, rtype, src, rtag, c, &rq);
    MPI_Isend(sbuf, scount, stype, dest, stag, c, &sq);
    MPI_Wait(&sq, MPI_STATUS_IGNORE);
    return MPI_Wait(&rq, st);
}
int MPI_Iprobe(int src, int tag, MPI_Comm c, int *flag, MPI_Status *st)
{
    sim_point();
    int me = myrank();
    uint64_t now = sim_now();
    *flag = 0;
    struct ompi_request_t tmp = {.comm = c, .peer = src, .tag = tag};
    for (msg_t *m = M.inbox[me]; m && m->t_arr <= now; m = m->next)
        if (match_ok(&tmp, m)) {
            *flag = 1;
            if (st && st != MPI_STATUS_IGNORE) { memset(st, 0, sizeof(*st)); st->MPI_SOURCE = comm_rank_of(c, m->src); st->MPI_TAG = m->tag; st->_ucount = m->nbytes; }
            break;
        }
    return MPI_SUCCESS;
}

/* ------------------------------------------------------------------ collectives */
enum { CK_BARRIER = 1, CK_ALLREDUCE, CK_REDUCE, CK_BCAST, CK_GATHER, CK_ALLGATHER };

static void reduce_into(void *acc, const void *in, int count, struct ompi_datatype_t *t, int op)
{
#define RED(T) { T *a = acc; const T *b = in; for (int i = 0; i < count; i++) switch (op) { \
        case OP_MAX: if (b[i] > a[i]) a[i] = b[i]; break; case OP_MIN: if (b[i] < a[i]) a[i] = b[i]; break; \
        case OP_SUM: a[i] = (T)(a[i] + b[i]); break; case OP_PROD: a[i] = (T)(a[i] * b[i]); break; \
        case OP_LAND: a[i] = (T)(a[i] && b[i]); break; case OP_LOR: a[i] = (T)(a[i] || b[i]); break; default: break; } }
#define REDI(T) { T *a = acc; const T *b = in; for (int i = 0; i < count; i++) switch (op) { \
        case OP_BAND: a[i] = (T)(a[i] & b[i]); break; case OP_BOR: a[i] = (T)(a[i] | b[i]); break; default: break; } }
    if (t == &ompi_mpi_double.d) RED(double)
    else if (t == &ompi_mpi_float.d) RED(float)
    else if (t->size == 8) { if (op == OP_BAND || op == OP_BOR) REDI(int64_t) else RED(int64_t) }
    else if (t->size == 4) { if (op == OP_BAND || op == OP_BOR) REDI(int32_t) else RED(int32_t) }
    else if (t->size == 2) { if (op == OP_BAND || op == OP_BOR) REDI(int16_t) else RED(int16_t) }
    else { if (op == OP_BAND || op == OP_BOR) REDI(uint8_t) else RED(uint8_t) }
}

static int pred_slot_done(void *a) { return ((coll_slot_t *)a)->done; }

static int collective(MPI_Comm c, int kind, const void *sbuf, void *rbuf, int count, MPI_Datatype t, MPI_Op op, int root)
{
    sim_point();
    int me = myrank();
    int n = c->is_self ? 1 : c->size;
    int myr = comm_rank_of(c, me);
    int seq = c->coll_seq[me]++;
    coll_slot_t *s = c->slots;
    if (c->is_self) s = NULL;   /* self communicators: private slot */
    while (s && s->seq != seq) s = s->next;
    if (!s) {
        s = calloc(1, sizeof(*s));
        s->seq = seq; s->kind = kind; s->count = count; s->type = t; s->op = op; s->root = root;
        if (!c->is_self) { s->next = c->slots; c->slots = s; }
    }
    if (s->kind != kind) { fprintf(stderr, "[simmpi] collective mismatch on comm %d: %d vs %d\n", c->id, s->kind, kind); abort(); }
    s->sbuf[myr] = sbuf; s->rbuf[myr] = rbuf;
    s->arrived++;
    M.st.collectives++;
    if (s->arrived == n) {
        size_t bytes = t ? t->size * (size_t)count : 0;
        switch (kind) {
        case CK_ALLREDUCE: case CK_REDUCE: {
            char *acc = malloc(bytes ? bytes : 1);
            const void *first = s->sbuf[0] == MPI_IN_PLACE ? s->rbuf[0] : s->sbuf[0];
            memcpy(acc, first, bytes);
            for (int r = 1; r < n; r++) reduce_into(acc, s->sbuf[r] == MPI_IN_PLACE ? s->rbuf[r] : s->sbuf[r], count, t, op->kind);
            for (int r = 0; r < n; r++) if (kind == CK_ALLREDUCE || r == root) memcpy(s->rbuf[r], acc, bytes);
            free(acc);
            break;
        }
        case CK_BCAST:
            for (int r = 0; r < n; r++) if (r != root) memcpy(s->rbuf[r], s->rbuf[root], bytes);
            break;
        case CK_GATHER: case CK_ALLGATHER:
            for (int d = 0; d < n; d++) if (kind == CK_ALLGATHER || d == root)
                for (int r = 0; r < n; r++) {
                    const void *src = s->sbuf[r] == MPI_IN_PLACE ? (char *)s->rbuf[r] + (size_t)r * bytes : s->sbuf[r];
                    if ((char *)s->rbuf[d] + (size_t)r * bytes != src) memcpy((char *)s->rbuf[d] + (size_t)r * bytes, src, bytes);
                }
            break;
        default: break;
        }
        s->done = 1;
    } else {
        sim_block_on(pred_slot_done, s, 0, "MPI collective");
    }
    if (++s->left == n) {
        if (!c->is_self) {
            coll_slot_t **pp = &c->slots;
            while (*pp && *pp != s) pp = &(*pp)->next;
            if (*pp) *pp = s->next;
        }
        free(s);
    }
    return MPI_SUCCESS;
}
int MPI_Barrier(MPI_Comm c) { return collective(c, CK_BARRIER, NULL, NULL, 0, NULL, NULL, 0); }
int MPI_Allreduce(const void *s, void *r, int count, MPI_Datatype t, MPI_Op op, MPI_Comm c) { return collective(c, CK_ALLREDUCE, s, r, count, t, op, 0); }
int MPI_Reduce(const void *s, void *r, int count, MPI_Datatype t, MPI_Op op, int root, MPI_Comm c) { return collective(c, CK_REDUCE, s, r, count, t, op, root); }
int MPI_Bcast(void *b, int count, MPI_Datatype t, int root, MPI_Comm c) { return collective(c, CK_BCAST, b, b, count, t, NULL, root); }
int MPI_Gather(const void *s, int sc, MPI_Datatype st, void *r, int rc, MPI_Datatype rt, int root, MPI_Comm c)
{
    (void)rc; (void)rt;
    return collective(c, CK_GATHER, s, r, sc, st, NULL, root);
}
int MPI_Allgather(const void *s, int sc, MPI_Datatype st, void *r, int rc, MPI_Datatype rt, MPI_Comm c)
{
    if (s == MPI_IN_PLACE) { sc = rc; st = rt; }
    return collective(c, CK_ALLGATHER, s, r, sc, st, NULL, 0);
}
