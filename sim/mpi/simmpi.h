/* simmpi control interface for harnesses (the MPI_* API itself comes from <mpi.h>) */
#ifndef VERIF_SIMMPI_H
#define VERIF_SIMMPI_H
#include <stdint.h>
#include <stddef.h>
#define SIMMPI_MAX_RANKS 16

typedef struct simmpi_cfg {
    uint64_t lat_base_ns, lat_jitter_ns;
    double   ns_per_byte;
    int      heavy_tail_pct;        /* % of messages with 20-100x latency */
    unsigned slow_link_mask;        /* pseudo-random subset of (src,dst) links 8x slower */
    long     eager_limit;           /* Isend payloads above this complete on match (rendezvous) */
    int      late_send_pct;         /* % of rendezvous sends whose local completion lags the match */
    int      testsome_partial_pct;  /* % of Testsome calls returning a strict subset */
    int      testsome_lag_pct;      /* % of Testsome calls reporting nothing although something completed */
    int      testsome_lag_max;      /* bound on consecutive lagged calls per rank */
    int      tag_ub;                /* MPI_TAG_UB attribute (0: INT_MAX) */
    int      thread_level;          /* thread level MPI_Init_thread provides (0: the requested one) */
} simmpi_cfg_t;

typedef struct simmpi_stats {
    uint64_t sent, delivered, eager, rendezvous, delay, heavy_delay, reorder_in_channel,
             late_send_completion, testsome_partial, testsome_lag, unexpected_matched,
             truncations, collectives, self_sendrecv;
} simmpi_stats_t;

enum { SIMMPI_EV_SEND = 1, SIMMPI_EV_DELIVER = 2 };
/* observation tap (oracle side): called with the world stopped */
typedef void (*simmpi_tap_fn)(int ev, int src, int dst, int comm_id, int tag, const void *data, size_t nbytes, uint64_t seq);

void simmpi_reset(int nranks, uint64_t seed, const simmpi_cfg_t *cfg);
void simmpi_set_tap(simmpi_tap_fn f);
const simmpi_stats_t *simmpi_stats(void);
int  simmpi_inflight(void);
int  simmpi_inflight_tag(int comm_id, int tag);
uint64_t simmpi_next_event(void);
#endif
