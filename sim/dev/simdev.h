/* simdev: simulated accelerator engine (DESIGN 3.5).  Plain C, uninstrumented, no PaRSEC types: every
 * entry point runs atomically (the caller holds the simulator's baton).  The PaRSEC glue that turns this
 * engine into a parsec_device_gpu_module_t lives in simdev_parsec.c (instrumented, one copy per rank).
 *
 * Model.  A device = a private memory buffer + S streams.  A stream is a FIFO of operations:
 *   COPY   (dst, src, n)   the bytes are copied AT COMPLETION TIME (so a consumer that does not wait for
 *                          the stream's event sees the old bytes at dst, and a producer that overwrites
 *                          src before the event completes corrupts the transfer -- both legal behaviours
 *                          of asynchronous DMA)
 *   KERNEL (fn, arg)       a test-owned closure, run AT COMPLETION TIME
 *   EVENT  (idx)           marker; the event flag is raised when every earlier op of the stream completed
 * Operation k of stream s of device d gets a duration from a stateless seeded hash of (d, s, k) (like
 * simmpi's ndec: the decision does not depend on the order in which other streams are used), and its
 * completion time is max(submission time, completion time of op k-1) + duration.  Operations complete
 * lazily, in global (time, device, stream) order, whenever the engine is entered (submission, event
 * query, simdev_progress) with the simulated clock at or past their completion time.  Simulated time
 * advances with simcore's scheduling points (the device manager of PaRSEC is a polling loop);
 * simdev_next_event() is offered to simcore's external-timer slot so that the clock can jump when every
 * thread sleeps.
 * Adversities: latency spread + heavy tail, event-query lag (a completed event is reported "not yet" a
 * bounded number of times), tiny memory, `hold` (kernels do not complete while the harness holds the
 * devices: a slow accelerator). */
#ifndef VERIF_SIMDEV_H
#define VERIF_SIMDEV_H
#include <stdint.h>
#include <stddef.h>

#define SIMDEV_MAX_DEV 4
#define SIMDEV_MAX_STREAMS 8
#define SIMDEV_MAX_EVENTS 8
#define SIMDEV_POISON 0x5DEADBEEF5DEADLL     /* 8-byte pattern written over freed device memory */

typedef struct simdev_cfg {
    int      ndev;                   /* 0..SIMDEV_MAX_DEV */
    int      nstreams;               /* 3..SIMDEV_MAX_STREAMS (in, out, exec...) */
    size_t   mem_bytes;              /* device memory per device */
    size_t   block_bytes;            /* allocation unit handed to zone_malloc */
    uint64_t copy_base_ns, copy_jitter_ns;
    uint64_t kern_base_ns, kern_jitter_ns;
    int      heavy_pct;              /* % of ops 10-50x slower */
    int      query_lag_pct;          /* % of event queries answering "not yet" for a completed event */
    int      query_lag_max;          /* bound on consecutive lagged answers per event */
    int      peer_access;            /* 1: devices can copy from each other (D2D) */
    int      d2h_max_flows;          /* parsec_gpu_d2h_max_flows */
    int      sort_pending;           /* install parsec_device_sort_pending_list */
    int      devtype_level_zero;     /* 1: register as PARSEC_DEV_LEVEL_ZERO instead of PARSEC_DEV_CUDA (experiments only) */
} simdev_cfg_t;

typedef struct simdev_stats {
    uint64_t copies_h2d, copies_d2h, copies_d2d, kernels, events, queries, lagged_queries, heavy, held_polls;
    uint64_t copy_completed, kernel_completed;
} simdev_stats_t;

typedef void (*simdev_kernel_fn)(void *arg, int dev, int stream);
/* observation tap: every completed copy (world stopped) */
typedef void (*simdev_copy_tap_fn)(int dev, int stream, int dir, void *dst, const void *src, size_t n);

enum { SIMDEV_H2D = 0, SIMDEV_D2H = 1, SIMDEV_D2D = 2 };

void   simdev_reset(const simdev_cfg_t *cfg, uint64_t seed);   /* frees and re-creates device memories */
const simdev_cfg_t *simdev_cfg(void);
void  *simdev_mem_base(int dev);
size_t simdev_mem_size(int dev);
int    simdev_owns(int dev, const void *p);                    /* p inside device dev's memory */
int    simdev_which(const void *p);                            /* device owning p, or -1 (host) */

int    simdev_memcpy_async(int dev, int stream, void *dst, const void *src, size_t n, int dir);
int    simdev_launch(int dev, int stream, simdev_kernel_fn fn, void *arg);
int    simdev_event_record(int dev, int stream, int ev);
int    simdev_event_query(int dev, int stream, int ev);        /* 1 completed, 0 not yet, <0 error */
void   simdev_progress(void);                                   /* complete everything due at sim_now() */
uint64_t simdev_next_event(void);                               /* earliest pending completion or UINT64_MAX */
int    simdev_pending(void);                                    /* operations not yet completed */
void   simdev_hold(int on);                                     /* 1: kernels do not complete */
void   simdev_set_copy_tap(simdev_copy_tap_fn f);
const simdev_stats_t *simdev_stats(void);
/* fill [p, p+n) with the poison pattern (n multiple of 8 handled, tail bytes 0x5D) */
void   simdev_poison(void *p, size_t n);
int    simdev_is_poison(int64_t v);
/* install min(simmpi, simdev) as simcore's external timer (call after simmpi_reset) */
void   simdev_install_timer(uint64_t (*other)(void));
#endif
