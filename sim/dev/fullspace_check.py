#!/usr/bin/env python3
"""Run the C43 / C26 check over the FULL accelerator workload space (harness knob mode=0).

The registered checks (registry.d/C43.py, C26.py) draw their plans from the steered sub-spaces (modes 1-4 of
harness/l3/dev.c) because the full space meets the accelerator-layer findings recorded in sim/dev/NOTES.md within
a few runs and known_findings.json (a shared file) does not list them yet.  This helper is `check` with
  * knobs  mode=0 (+ any extra name=val given on the command line),
  * known findings = known_findings.json + sim/dev/proposed_known_findings.json,
  * evidence written to _work/evidence_fullspace/ instead of evidence/.
Usage:  VERIF_WORKERS=6 sim/dev/fullspace_check.py C43 [--tier quick] [--no-proposed] [--except KF-ID] [name=val ...]
        (--except: treat every proposed finding as known EXCEPT that one, to obtain a minimised replay of it)
Exit code as check: 0 (only known findings), 1 (VIOLATION + replay path), 2 (infrastructure).
"""
import importlib.machinery, importlib.util, json, os, sys

VERIF = os.path.dirname(os.path.dirname(os.path.dirname(os.path.abspath(__file__))))
sys.path.insert(0, VERIF)


def main():
    args = sys.argv[1:]
    prop = args[0] if args and not args[0].startswith("-") else "C43"
    tier = args[args.index("--tier") + 1] if "--tier" in args else "quick"
    use_proposed = "--no-proposed" not in args
    except_id = args[args.index("--except") + 1] if "--except" in args else None
    extra = [a for a in args[1:] if "=" in a and not a.startswith("-")]
    loader = importlib.machinery.SourceFileLoader("verif_check", os.path.join(VERIF, "check"))
    spec = importlib.util.spec_from_loader("verif_check", loader)
    chk = importlib.util.module_from_spec(spec)
    loader.exec_module(chk)
    reg = chk.REGISTRY[prop]
    reg["knobs_cli"] = [k for k in reg.get("knobs_cli", []) if not k.startswith("mode=")] + ["mode=0"] + extra
    base_load = chk.load_known

    def load_known(p):
        out = base_load(p)
        if use_proposed:
            f = os.path.join(VERIF, "sim/dev/proposed_known_findings.json")
            out += [k for k in json.load(open(f))["findings"] if p in k["property"] and k.get("status") == "open" and k["id"] != except_id]
        return out
    chk.load_known = load_known
    base_ev = chk.write_evidence

    def write_evidence(spec_, tier_, seed_, s, wall, nviol, extra_=None):
        evdir = os.path.join(chk.P.WORK, "evidence_fullspace")
        os.makedirs(evdir, exist_ok=True)
        real = os.path.join(chk.VERIF, "evidence", spec_["property"] + ".json")
        keep = open(real).read() if os.path.exists(real) else None
        base_ev(spec_, tier_, seed_, s, wall, nviol, extra_)
        if "VERIF_WORK" not in os.environ:
            os.replace(real, os.path.join(evdir, spec_["property"] + ".json"))
            if keep is not None:
                open(real, "w").write(keep)
    chk.write_evidence = write_evidence
    seed = int(os.environ.get("VERIF_SEED", "1000000"))
    sys.exit(chk.do_check(prop, tier, seed))


if __name__ == "__main__":
    main()
