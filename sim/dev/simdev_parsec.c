/* simdev as a PaRSEC device component (DESIGN 3.5).  Instrumented; linked into every rank object.
 *
 * Registration seam: none had to be invented.  The component is listed in mca_static_components[] of the
 * private mca_repository.c built by build/devbuild.py, so parsec_init finds it exactly like the CUDA
 * component: parsec_mca_device_init() -> register/open/query (modules are created here, device memory is
 * reserved through the real parsec_device_memory_reserve + zone_malloc_init), parsec_mca_device_attach()
 * -> module->attach == the real parsec_device_attach -> parsec_mca_device_add(), then
 * parsec_mca_device_registration_complete() -> all_devices_attached (peer masks).  parsec_fini ->
 * component close -> real parsec_device_memory_release, parsec_mca_device_remove.
 *
 * Device type: the modules carry PARSEC_DEV_CUDA although no CUDA code is compiled.  Only the *compile
 * time* guard needs to be vendor-free (PARSEC_HAVE_DEV_LEVEL_ZERO_SUPPORT, see devbuild.py); at run time
 * the generic layer treats the three GPU types alike except in parsec_data_destruct (data.c), which
 * releases the device copies of every device that is not CUDA/HIP although a LEVEL_ZERO copy sits in the
 * device LRU like any other (cfg.devtype_level_zero=1 exposes that path; it is not used by the checks).
 *
 * The module structure mirrors mca/device/cuda/device_cuda_module.c field by field. */
#include "parsec/parsec_config.h"
#include "parsec/parsec_internal.h"
#include "parsec/sys/atomic.h"
#include "parsec/utils/mca_param.h"
#include "parsec/constants.h"
#include "parsec/runtime.h"
#include "parsec/data_internal.h"
#include "parsec/mca/device/device.h"
#include "parsec/mca/device/device_gpu.h"
#include "parsec/utils/debug.h"
#include "parsec/utils/zone_malloc.h"
#include "parsec/class/fifo.h"
#include <stdlib.h>
#include <string.h>
#include <stdio.h>
#include "sim/core/sim.h"
#include "sim/dev/simdev_parsec.h"

static int simdev_component_open(void);
static int simdev_component_close(void);
static int simdev_component_query(mca_base_module_2_0_0_t **module, int *priority);
static int simdev_component_register(void);

parsec_device_base_component_t parsec_device_simdev_component = {
    {
        PARSEC_DEVICE_BASE_VERSION_2_0_0,
        "simdev",
        "",
        PARSEC_VERSION_MAJOR,
        PARSEC_VERSION_MINOR,
        simdev_component_open,
        simdev_component_close,
        simdev_component_query,
        simdev_component_register,
        "",
    },
    {
        MCA_BASE_METADATA_PARAM_NONE,
        "",
    },
    NULL
};

mca_base_component_t *device_simdev_static_component(void)
{
    return (mca_base_component_t *)&parsec_device_simdev_component;
}

static int nb_modules;
int simdev_parsec_nb_modules(void) { return nb_modules; }
parsec_device_gpu_module_t *simdev_parsec_module(int i)
{
    if (i < 0 || i >= nb_modules || NULL == parsec_device_simdev_component.modules) return NULL;
    return (parsec_device_gpu_module_t *)parsec_device_simdev_component.modules[i];
}
int simdev_parsec_index(parsec_device_module_t *dev)
{
    for (int i = 0; i < nb_modules; i++)
        if ((parsec_device_module_t *)parsec_device_simdev_component.modules[i] == dev) return ((simdev_module_t *)dev)->sim_index;
    return -1;
}

/* ---- poison sweep: free zone blocks are overwritten so that a stale device pointer reads poison ---- */
void simdev_parsec_poison_free_blocks(void)
{
    sim_pause();
    for (int i = 0; i < nb_modules; i++) {
        parsec_device_gpu_module_t *g = simdev_parsec_module(i);
        zone_malloc_t *z = g ? g->memory : NULL;
        if (NULL == z || 0 != z->lock || NULL == z->segments) continue;   /* somebody is inside the allocator */
        for (int tid = 0; tid >= 0 && tid < z->max_segment;) {
            segment_t *s = &z->segments[tid];
            if (s->nb_units <= 0) break;
            if (SEGMENT_EMPTY == s->status) simdev_poison(z->base + (size_t)tid * z->unit_size, (size_t)s->nb_units * z->unit_size);
            tid += s->nb_units;
        }
    }
    sim_resume();
}

/* ---- back-end functions ---- */
static int simdev_set_device(parsec_device_gpu_module_t *gpu) { (void)gpu; return PARSEC_SUCCESS; }

static int simdev_memcpy_async_fn(parsec_device_gpu_module_t *gpu, parsec_gpu_exec_stream_t *gpu_stream,
                                  void *dest, void *source, size_t bytes, parsec_device_transfer_direction_t direction)
{
    simdev_exec_stream_t *s = (simdev_exec_stream_t *)gpu_stream;
    (void)gpu;
    int dir = parsec_device_gpu_transfer_direction_h2d == direction ? SIMDEV_H2D
            : parsec_device_gpu_transfer_direction_d2h == direction ? SIMDEV_D2H : SIMDEV_D2D;
    simdev_parsec_poison_free_blocks();
    return 0 == simdev_memcpy_async(s->dev, s->idx, dest, source, bytes, dir) ? PARSEC_SUCCESS : PARSEC_ERROR;
}

static int simdev_event_record_fn(parsec_device_gpu_module_t *gpu, parsec_gpu_exec_stream_t *gpu_stream, int32_t event_idx)
{
    simdev_exec_stream_t *s = (simdev_exec_stream_t *)gpu_stream;
    (void)gpu;
    simdev_parsec_poison_free_blocks();
    return 0 == simdev_event_record(s->dev, s->idx, event_idx) ? PARSEC_SUCCESS : PARSEC_ERROR;
}

static int simdev_event_query_fn(parsec_device_gpu_module_t *gpu, parsec_gpu_exec_stream_t *gpu_stream, int32_t event_idx)
{
    simdev_exec_stream_t *s = (simdev_exec_stream_t *)gpu_stream;
    (void)gpu;
    simdev_parsec_poison_free_blocks();
    int rc = simdev_event_query(s->dev, s->idx, event_idx);
    return rc < 0 ? PARSEC_ERROR : rc;
}

static int simdev_memory_info(parsec_device_gpu_module_t *gpu, size_t *free_mem, size_t *total_mem)
{
    simdev_module_t *m = (simdev_module_t *)gpu;
    /* parsec_device_memory_reserve refuses to map 100% of the free memory: report one block more */
    *free_mem = *total_mem = simdev_mem_size(m->sim_index) + simdev_cfg()->block_bytes;
    return PARSEC_SUCCESS;
}

static int simdev_memory_allocate(parsec_device_gpu_module_t *gpu, size_t bytes, void **addr)
{
    simdev_module_t *m = (simdev_module_t *)gpu;
    if (bytes > simdev_mem_size(m->sim_index)) return PARSEC_ERR_OUT_OF_RESOURCE;
    *addr = simdev_mem_base(m->sim_index);
    return PARSEC_SUCCESS;
}

static int simdev_memory_free(parsec_device_gpu_module_t *gpu, void *addr) { (void)gpu; (void)addr; return PARSEC_SUCCESS; }

static void *simdev_find_incarnation(parsec_device_gpu_module_t *gpu, const char *fname) { (void)gpu; (void)fname; return NULL; }

static int simdev_all_devices_attached(parsec_device_module_t *device)
{
    parsec_device_gpu_module_t *src = (parsec_device_gpu_module_t *)device, *tgt;
    src->peer_access_mask = 0;
    for (int j = 0; j < nb_modules; j++) {
        tgt = simdev_parsec_module(j);
        if (tgt == src || simdev_cfg()->peer_access)
            src->peer_access_mask = (int16_t)(src->peer_access_mask | (int16_t)(1 << tgt->super.device_index));
    }
    return PARSEC_SUCCESS;
}

int simdev_parsec_launch(parsec_device_gpu_module_t *gpu_device, parsec_gpu_exec_stream_t *gpu_stream, simdev_kernel_fn fn, void *arg)
{
    simdev_exec_stream_t *s = (simdev_exec_stream_t *)gpu_stream;
    (void)gpu_device;
    simdev_parsec_poison_free_blocks();
    return simdev_launch(s->dev, s->idx, fn, arg);
}

/* ---- module life cycle (mirrors parsec_cuda_module_init / _fini) ---- */
static int simdev_module_init(int dev_id, parsec_device_module_t **module)
{
    const simdev_cfg_t *cfg = simdev_cfg();
    simdev_module_t *sm = (simdev_module_t *)calloc(1, sizeof(simdev_module_t));
    parsec_device_gpu_module_t *gpu_device = &sm->super;
    parsec_device_module_t *device = &gpu_device->super;
    int j, k, len;

    *module = NULL;
    PARSEC_OBJ_CONSTRUCT(sm, parsec_device_module_t);
    sm->sim_index = dev_id;
    len = asprintf(&device->name, "simdev(%d)", dev_id);
    if (-1 == len) { free(sm); return PARSEC_ERROR; }
    gpu_device->data_avail_epoch = 0;
    gpu_device->max_exec_streams = (uint8_t)cfg->nstreams;
    gpu_device->exec_stream = (parsec_gpu_exec_stream_t **)malloc(gpu_device->max_exec_streams * sizeof(parsec_gpu_exec_stream_t *));
    gpu_device->exec_stream[0] = (parsec_gpu_exec_stream_t *)calloc(gpu_device->max_exec_streams, sizeof(simdev_exec_stream_t));
    for (j = 1; j < gpu_device->max_exec_streams; j++)
        gpu_device->exec_stream[j] = (parsec_gpu_exec_stream_t *)((simdev_exec_stream_t *)gpu_device->exec_stream[0] + j);
    for (j = 0; j < gpu_device->max_exec_streams; j++) {
        simdev_exec_stream_t *ss = (simdev_exec_stream_t *)gpu_device->exec_stream[j];
        parsec_gpu_exec_stream_t *exec_stream = &ss->super;
        gpu_device->num_exec_streams++;
        ss->dev = dev_id;
        ss->idx = j;
        exec_stream->workspace = NULL;
        PARSEC_OBJ_CONSTRUCT(&exec_stream->infos, parsec_info_object_array_t);
        parsec_info_object_array_init(&exec_stream->infos, &parsec_per_stream_infos, exec_stream);
        exec_stream->max_events = PARSEC_MAX_EVENTS_PER_STREAM;
        exec_stream->executed = 0;
        exec_stream->start = 0;
        exec_stream->end = 0;
        exec_stream->fifo_pending = (parsec_list_t *)PARSEC_OBJ_NEW(parsec_list_t);
        PARSEC_OBJ_CONSTRUCT(exec_stream->fifo_pending, parsec_list_t);
        exec_stream->tasks = (parsec_gpu_task_t **)malloc(exec_stream->max_events * sizeof(parsec_gpu_task_t *));
        for (k = 0; k < exec_stream->max_events; k++) exec_stream->tasks[k] = NULL;
        len = asprintf(&exec_stream->name, "%s_simdev(%d)", 0 == j ? "h2d" : 1 == j ? "d2h" : "exec", j);
        if (-1 == len) exec_stream->name = NULL;
    }
    device->type = cfg->devtype_level_zero ? PARSEC_DEV_LEVEL_ZERO : PARSEC_DEV_CUDA;
    device->executed_tasks = 0;
    device->data_in_array_size = 0;
    device->data_in_from_device = NULL;
    device->data_out_to_host = 0;
    device->required_data_in = 0;
    device->required_data_out = 0;
    device->nb_evictions = 0;

    device->attach = parsec_device_attach;
    device->detach = parsec_device_detach;
    device->taskpool_register = parsec_device_taskpool_register;
    device->taskpool_unregister = parsec_device_taskpool_unregister;
    device->data_advise = parsec_device_data_advise;
    device->memory_release = parsec_device_flush_lru;
    device->kernel_scheduler = parsec_device_kernel_scheduler;
    /* far above any CPU so that time_estimate_default of a simdev device (= total/own, truncated) does not
     * depend on the host's clock rate read from /proc/cpuinfo by cpu_weights() */
    device->gflops_fp16 = device->gflops_tf32 = device->gflops_fp32 = device->gflops_fp64 = 100000000;
    device->gflops_guess = 0;
    device->device_load = 0;

    PARSEC_OBJ_CONSTRUCT(&gpu_device->gpu_mem_lru, parsec_list_t);
    PARSEC_OBJ_CONSTRUCT(&gpu_device->gpu_mem_owned_lru, parsec_list_t);
    PARSEC_OBJ_CONSTRUCT(&gpu_device->pending, parsec_fifo_t);
    gpu_device->sort_starting_p = NULL;
    gpu_device->peer_access_mask = 0;

    device->memory_register = NULL;
    device->memory_unregister = NULL;
    device->all_devices_attached = simdev_all_devices_attached;
    gpu_device->set_device = simdev_set_device;
    gpu_device->memcpy_async = simdev_memcpy_async_fn;
    gpu_device->event_record = simdev_event_record_fn;
    gpu_device->event_query = simdev_event_query_fn;
    gpu_device->memory_info = simdev_memory_info;
    gpu_device->memory_allocate = simdev_memory_allocate;
    gpu_device->memory_free = simdev_memory_free;
    gpu_device->find_incarnation = simdev_find_incarnation;

    if (PARSEC_SUCCESS != parsec_device_memory_reserve(gpu_device, -1, (int)(cfg->mem_bytes / cfg->block_bytes), cfg->block_bytes)) {
        fprintf(stderr, "simdev: parsec_device_memory_reserve failed\n");
        free(gpu_device->exec_stream[0]);
        free(gpu_device->exec_stream);
        free(sm);
        return PARSEC_ERROR;
    }
    if (cfg->sort_pending) device->sort_pending_list = parsec_device_sort_pending_list;
    *module = device;
    return PARSEC_SUCCESS;
}

static int simdev_module_fini(parsec_device_module_t *device)
{
    parsec_device_gpu_module_t *gpu_device = (parsec_device_gpu_module_t *)device;
    int j;
    parsec_device_memory_release(gpu_device);
    PARSEC_OBJ_DESTRUCT(&gpu_device->pending);
    for (j = 0; j < gpu_device->num_exec_streams; j++) {
        parsec_gpu_exec_stream_t *exec_stream = gpu_device->exec_stream[j];
        exec_stream->executed = 0;
        exec_stream->start = 0;
        exec_stream->end = 0;
        exec_stream->max_events = 0;
        free(exec_stream->tasks); exec_stream->tasks = NULL;
        free(exec_stream->fifo_pending); exec_stream->fifo_pending = NULL;
        free(exec_stream->name);
        PARSEC_OBJ_DESTRUCT(&exec_stream->infos);
    }
    free(gpu_device->exec_stream[0]);
    free(gpu_device->exec_stream);
    gpu_device->exec_stream = NULL;
    PARSEC_OBJ_DESTRUCT(&gpu_device->gpu_mem_lru);
    PARSEC_OBJ_DESTRUCT(&gpu_device->gpu_mem_owned_lru);
    return PARSEC_SUCCESS;
}

/* ---- component ---- */
static int simdev_component_register(void)
{
    parsec_gpu_verbosity = -1;
    return simdev_cfg()->ndev > 0 ? MCA_SUCCESS : MCA_ERROR;
}

static int simdev_component_open(void)
{
    return simdev_cfg()->ndev > 0 ? MCA_SUCCESS : MCA_ERROR;
}

static int simdev_component_query(mca_base_module_t **module, int *priority)
{
    const simdev_cfg_t *cfg = simdev_cfg();
    int i, j, rc;
    *module = NULL;
    *priority = 0;
    nb_modules = 0;
    if (cfg->ndev <= 0) return MCA_SUCCESS;
    parsec_gpu_d2h_max_flows = cfg->d2h_max_flows;
    parsec_device_simdev_component.modules = (parsec_device_module_t **)calloc(cfg->ndev + 1, sizeof(parsec_device_module_t *));
    for (i = j = 0; i < cfg->ndev; i++) {
        rc = simdev_module_init(i, &parsec_device_simdev_component.modules[j]);
        if (PARSEC_SUCCESS != rc) continue;
        parsec_device_simdev_component.modules[j]->component = &parsec_device_simdev_component;
        j++;
        parsec_device_simdev_component.modules[j] = NULL;
    }
    nb_modules = j;
    parsec_device_enable_debug();
    void *ptr = parsec_device_simdev_component.modules;
    *priority = 10;
    *module = (mca_base_module_t *)ptr;
    return MCA_SUCCESS;
}

static int simdev_component_close(void)
{
    parsec_device_module_t *dev;
    int i;
    if (NULL == parsec_device_simdev_component.modules) return MCA_SUCCESS;
    for (i = 0; NULL != (dev = parsec_device_simdev_component.modules[i]); i++) {
        parsec_device_simdev_component.modules[i] = NULL;
        (void)simdev_module_fini(dev);
        (void)parsec_mca_device_remove(dev);
        free(dev->name);
        free(dev);
    }
    nb_modules = 0;
    free(parsec_device_simdev_component.modules);
    parsec_device_simdev_component.modules = NULL;
    if (parsec_device_output != parsec_gpu_output_stream) parsec_output_close(parsec_gpu_output_stream);
    parsec_gpu_output_stream = parsec_device_output;
    return MCA_SUCCESS;
}
