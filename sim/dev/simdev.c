/* simdev engine: see simdev.h.  Uninstrumented: runs atomically under the simulator's baton. */
#define _GNU_SOURCE
#include "simdev.h"
#include "../core/sim.h"
#include <stdio.h>
#include <stdlib.h>
#include <string.h>

enum { OP_COPY = 1, OP_KERNEL = 2, OP_EVENT = 3 };
#define QCAP 1024

typedef struct {
    int type;
    uint64_t t_done;
    void *dst; const void *src; size_t n; int dir;
    simdev_kernel_fn fn; void *arg;
    int ev;
} op_t;

typedef struct {
    op_t q[QCAP];
    unsigned head, tail;            /* ring: [head, tail) */
    uint64_t nsub;                  /* operations ever submitted (index for the stateless decisions) */
    uint64_t t_last;                /* completion time of the last submitted op */
    int ev_state[SIMDEV_MAX_EVENTS];/* 0 never recorded, 1 pending, 2 completed */
    int ev_lag[SIMDEV_MAX_EVENTS];
    uint64_t nquery;
} stream_t;

typedef struct {
    char *mem; size_t size;
    stream_t st[SIMDEV_MAX_STREAMS];
} sdevice_t;

static struct {
    simdev_cfg_t cfg;
    uint64_t seed;
    sdevice_t dev[SIMDEV_MAX_DEV];
    int hold;
    int in_progress;
    simdev_copy_tap_fn tap;
    simdev_stats_t stats;
    uint64_t (*other_timer)(void);
} D;

static uint64_t ndec(uint64_t kind, uint64_t a, uint64_t b)
{
    uint64_t s = D.seed ^ (kind * 0x9E3779B97F4A7C15ULL) ^ (a * 0xC2B2AE3D27D4EB4FULL) ^ (b * 0x165667B19E3779F9ULL);
    (void)sim_splitmix(&s);
    return sim_splitmix(&s);
}

void simdev_poison(void *p, size_t n)
{
    int64_t v = SIMDEV_POISON;
    char *c = p;
    size_t i = 0;
    for (; i + 8 <= n; i += 8) memcpy(c + i, &v, 8);
    for (; i < n; i++) c[i] = 0x5D;
}
int simdev_is_poison(int64_t v) { return v == (int64_t)SIMDEV_POISON; }

void simdev_reset(const simdev_cfg_t *cfg, uint64_t seed)
{
    for (int d = 0; d < SIMDEV_MAX_DEV; d++) free(D.dev[d].mem);
    uint64_t (*ot)(void) = D.other_timer;
    memset(&D, 0, sizeof(D));
    D.other_timer = ot;
    D.cfg = *cfg;
    D.seed = seed * 0x2545F4914F6CDD1DULL + 0x51D;
    if (D.cfg.ndev > SIMDEV_MAX_DEV) D.cfg.ndev = SIMDEV_MAX_DEV;
    if (D.cfg.nstreams > SIMDEV_MAX_STREAMS) D.cfg.nstreams = SIMDEV_MAX_STREAMS;
    if (D.cfg.nstreams < 3) D.cfg.nstreams = 3;
    for (int d = 0; d < D.cfg.ndev; d++) {
        void *p = NULL;
        if (posix_memalign(&p, 4096, D.cfg.mem_bytes ? D.cfg.mem_bytes : 4096)) { fprintf(stderr, "simdev: out of memory\n"); abort(); }
        D.dev[d].mem = p;
        D.dev[d].size = D.cfg.mem_bytes;
        simdev_poison(p, D.cfg.mem_bytes);
    }
}
const simdev_cfg_t *simdev_cfg(void) { return &D.cfg; }
void *simdev_mem_base(int dev) { return dev >= 0 && dev < D.cfg.ndev ? D.dev[dev].mem : NULL; }
size_t simdev_mem_size(int dev) { return dev >= 0 && dev < D.cfg.ndev ? D.dev[dev].size : 0; }
int simdev_owns(int dev, const void *p)
{
    if (dev < 0 || dev >= D.cfg.ndev) return 0;
    const char *c = p;
    return c >= D.dev[dev].mem && c < D.dev[dev].mem + D.dev[dev].size;
}
int simdev_which(const void *p)
{
    for (int d = 0; d < D.cfg.ndev; d++) if (simdev_owns(d, p)) return d;
    return -1;
}
void simdev_hold(int on) { D.hold = on; }
void simdev_set_copy_tap(simdev_copy_tap_fn f) { D.tap = f; }
const simdev_stats_t *simdev_stats(void) { return &D.stats; }

static stream_t *stream_of(int dev, int stream)
{
    if (dev < 0 || dev >= D.cfg.ndev || stream < 0 || stream >= D.cfg.nstreams) return NULL;
    return &D.dev[dev].st[stream];
}

static op_t *enqueue(int dev, int stream, int type)
{
    stream_t *s = stream_of(dev, stream);
    if (!s) return NULL;
    if (s->tail - s->head >= QCAP) { fprintf(stderr, "simdev: stream queue overflow (dev %d stream %d)\n", dev, stream); abort(); }
    op_t *o = &s->q[s->tail % QCAP];
    memset(o, 0, sizeof(*o));
    o->type = type;
    uint64_t k = s->nsub++;
    uint64_t key = ((uint64_t)dev << 8) | (uint64_t)stream;
    uint64_t dur = 0;
    if (type == OP_COPY) dur = D.cfg.copy_base_ns + (D.cfg.copy_jitter_ns ? ndec(1, key, k) % D.cfg.copy_jitter_ns : 0);
    else if (type == OP_KERNEL) dur = D.cfg.kern_base_ns + (D.cfg.kern_jitter_ns ? ndec(2, key, k) % D.cfg.kern_jitter_ns : 0);
    if (type != OP_EVENT && D.cfg.heavy_pct && ndec(3, key, k) % 100 < (uint64_t)D.cfg.heavy_pct) { dur *= 10 + ndec(4, key, k) % 40; D.stats.heavy++; }
    uint64_t now = sim_now(), start = s->t_last > now ? s->t_last : now;
    o->t_done = start + dur;
    s->t_last = o->t_done;
    s->tail++;
    return o;
}

void simdev_progress(void)
{
    if (D.in_progress) return;      /* a kernel closure re-entered the engine */
    D.in_progress = 1;
    uint64_t now = sim_now();
    for (;;) {
        int bd = -1, bs = -1;
        uint64_t bt = UINT64_MAX;
        for (int d = 0; d < D.cfg.ndev; d++) for (int s = 0; s < D.cfg.nstreams; s++) {
            stream_t *st = &D.dev[d].st[s];
            if (st->head == st->tail) continue;
            op_t *o = &st->q[st->head % QCAP];
            if (o->t_done > now) continue;
            if (o->type == OP_KERNEL && D.hold) { D.stats.held_polls++; continue; }
            if (o->t_done < bt) { bt = o->t_done; bd = d; bs = s; }
        }
        if (bd < 0) break;
        stream_t *st = &D.dev[bd].st[bs];
        op_t o = st->q[st->head % QCAP];
        st->head++;
        switch (o.type) {
        case OP_COPY:
            memmove(o.dst, o.src, o.n);
            D.stats.copy_completed++;
            if (D.tap) D.tap(bd, bs, o.dir, o.dst, o.src, o.n);
            break;
        case OP_KERNEL:
            D.stats.kernel_completed++;
            o.fn(o.arg, bd, bs);
            break;
        case OP_EVENT:
            st->ev_state[o.ev] = 2;
            break;
        }
        sim_hash_event(0xDE00000000000000ULL ^ ((uint64_t)bd << 48) ^ ((uint64_t)bs << 40) ^ ((uint64_t)o.type << 32) ^ (st->head & 0xffffffffULL));
    }
    D.in_progress = 0;
}

int simdev_memcpy_async(int dev, int stream, void *dst, const void *src, size_t n, int dir)
{
    simdev_progress();
    op_t *o = enqueue(dev, stream, OP_COPY);
    if (!o) return -1;
    o->dst = dst; o->src = src; o->n = n; o->dir = dir;
    if (dir == SIMDEV_H2D) D.stats.copies_h2d++; else if (dir == SIMDEV_D2H) D.stats.copies_d2h++; else D.stats.copies_d2d++;
    return 0;
}

int simdev_launch(int dev, int stream, simdev_kernel_fn fn, void *arg)
{
    simdev_progress();
    op_t *o = enqueue(dev, stream, OP_KERNEL);
    if (!o) return -1;
    o->fn = fn; o->arg = arg;
    D.stats.kernels++;
    return 0;
}

int simdev_event_record(int dev, int stream, int ev)
{
    simdev_progress();
    stream_t *s = stream_of(dev, stream);
    if (!s || ev < 0 || ev >= SIMDEV_MAX_EVENTS) return -1;
    op_t *o = enqueue(dev, stream, OP_EVENT);
    o->ev = ev;
    s->ev_state[ev] = 1;
    s->ev_lag[ev] = 0;
    D.stats.events++;
    simdev_progress();          /* an event recorded on an idle stream completes at once */
    return 0;
}

int simdev_event_query(int dev, int stream, int ev)
{
    stream_t *s = stream_of(dev, stream);
    if (!s || ev < 0 || ev >= SIMDEV_MAX_EVENTS) return -1;
    simdev_progress();
    D.stats.queries++;
    uint64_t q = s->nquery++;
    if (s->ev_state[ev] == 0) return -1;         /* querying an event that was never recorded */
    if (s->ev_state[ev] == 1) return 0;
    if (D.cfg.query_lag_pct && s->ev_lag[ev] < D.cfg.query_lag_max &&
        ndec(5, ((uint64_t)dev << 8) | (uint64_t)stream, q) % 100 < (uint64_t)D.cfg.query_lag_pct) {
        s->ev_lag[ev]++;
        D.stats.lagged_queries++;
        return 0;
    }
    return 1;
}

uint64_t simdev_next_event(void)
{
    uint64_t bt = UINT64_MAX;
    for (int d = 0; d < D.cfg.ndev; d++) for (int s = 0; s < D.cfg.nstreams; s++) {
        stream_t *st = &D.dev[d].st[s];
        if (st->head == st->tail) continue;
        op_t *o = &st->q[st->head % QCAP];
        if (o->type == OP_KERNEL && D.hold) continue;
        if (o->t_done < bt) bt = o->t_done;
    }
    return bt;
}

int simdev_pending(void)
{
    int n = 0;
    for (int d = 0; d < D.cfg.ndev; d++) for (int s = 0; s < D.cfg.nstreams; s++) n += (int)(D.dev[d].st[s].tail - D.dev[d].st[s].head);
    return n;
}

static uint64_t both_timers(void)
{
    uint64_t a = D.other_timer ? D.other_timer() : UINT64_MAX, b = simdev_next_event();
    return a < b ? a : b;
}
void simdev_install_timer(uint64_t (*other)(void))
{
    D.other_timer = other;
    sim_set_ext_timer(both_timers);
}
