/* PaRSEC-facing side of simdev (instrumented, one copy per simulated rank): an MCA component "device/simdev"
 * whose modules are parsec_device_gpu_module_t instances backed by the simdev engine. */
#ifndef VERIF_SIMDEV_PARSEC_H
#define VERIF_SIMDEV_PARSEC_H
#include "parsec/parsec_config.h"
#include "parsec/mca/device/device_gpu.h"
#include "sim/dev/simdev.h"

typedef struct simdev_exec_stream_s {
    parsec_gpu_exec_stream_t super;
    int dev;        /* simdev device index (0-based) */
    int idx;        /* stream index inside the device */
} simdev_exec_stream_t;

typedef struct simdev_module_s {
    parsec_device_gpu_module_t super;
    int sim_index;
} simdev_module_t;

/* queue a kernel closure on the simulated stream behind gpu_stream */
int simdev_parsec_launch(parsec_device_gpu_module_t *gpu_device, parsec_gpu_exec_stream_t *gpu_stream,
                         simdev_kernel_fn fn, void *arg);
/* simdev index of a PaRSEC device (or -1) */
int simdev_parsec_index(parsec_device_module_t *dev);
/* overwrite every free block of every simdev device memory with the poison pattern (world stopped) */
void simdev_parsec_poison_free_blocks(void);
/* number of modules created by the last parsec_init of this rank */
int simdev_parsec_nb_modules(void);
parsec_device_gpu_module_t *simdev_parsec_module(int i);
#endif
