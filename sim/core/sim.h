/* simcore public API (DESIGN 3.2).  Uninstrumented; single baton holder at any time. */
#ifndef VERIF_SIM_H
#define VERIF_SIM_H
#include <stdint.h>
#include <stddef.h>
#include <stdio.h>

#ifdef __cplusplus
extern "C" {
#endif

#define SIM_MAX_THREADS 256

enum { SIM_K_PLAIN = 0, SIM_K_VOLATILE = 1, SIM_K_ATOMIC = 2, SIM_K_NKIND = 3 };
enum { SIM_STRAT_RW = 0, SIM_STRAT_PCT = 1, SIM_STRAT_RR = 2 };
enum { SIM_END_OK = 0, SIM_END_DEADLOCK = 1, SIM_END_BUDGET = 2, SIM_END_NOPROGRESS = 3 };

/* PRNG sub-streams */
enum { SIM_RNG_SCHED = 0, SIM_RNG_NET = 1, SIM_RNG_DEV = 2, SIM_RNG_WORK = 3, SIM_RNG_KNOB = 4, SIM_RNG_N = 5 };

typedef struct sim_params {
    uint64_t seed;
    int      strategy;        /* SIM_STRAT_*; -1: drawn from seed */
    double   mean_gap;        /* mean weight units between random preemptions (RW); <=0: drawn from seed */
    double   gap_lo, gap_hi;  /* range for the log-uniform draw of mean_gap (0: 16..64000) */
    int      w[SIM_K_NKIND];  /* weights per access kind; all 0: drawn from seed */
    int      pct_depth;       /* PCT: number of priority change points; <0 drawn */
    uint64_t pct_len;         /* PCT: estimated run length in scheduling points */
    uint64_t max_steps;       /* step budget, 0 = default 400M */
    uint64_t tail_after;      /* steps after which faults stop and scheduling is RR-fair (0: max_steps/2) */
    uint64_t quantum_ns;      /* simulated ns per scheduling point (default 20) */
    int      stalls;          /* number of random stall injections (RW only); <0 drawn */
    uint64_t stall_len;       /* estimated run length for stall placement */
    int      record;          /* 1: record the decision trace */
    /* replay */
    const char *trace_text;   /* non-NULL: replay from this decision trace */
} sim_params_t;

typedef struct sim_stats {
    uint64_t steps, switches, forced_switches, preemptions, decisions;
    uint64_t sim_ns;
    uint64_t fingerprint;     /* FNV-1a over synchronisation-level events */
    uint64_t nsync;           /* number of synchronisation events hashed */
    uint64_t cas_fail;        /* CAS failures observed */
    uint64_t spin_yields;     /* forced yields because of detected spinning */
    uint64_t max_runnable;    /* max simultaneously runnable sim-threads at a decision */
    uint64_t stalls_fired;
    uint64_t time_jumps;
    int      nthreads;        /* sim threads created (incl. main) */
    int      end;             /* SIM_END_* */
    int      strategy;
} sim_stats_t;

/* life cycle: the calling thread becomes sim-thread 0 */
void sim_begin(const sim_params_t *p);
void sim_end(sim_stats_t *out);     /* all other sim threads must be DONE (or abandoned on abnormal end) */
int  sim_active(void);

/* harness helpers; none draws from a PRNG */
uint64_t sim_stamp(void);           /* global event sequence number, strictly increasing */
uint64_t sim_now(void);             /* simulated ns */
uint64_t sim_steps(void);
void     sim_delay(uint64_t ns);    /* simulated sleep */
void     sim_yield(void);           /* forced decision point */
void     sim_point(void);           /* optional preemption candidate (atomic weight) from uninstrumented code */
int      sim_self(void);            /* logical thread id, -1 if not a sim thread */
int      sim_rank(void);
void     sim_set_rank(int r);
void     sim_probe(int id);         /* reach probe counters, id < 64 */
uint64_t sim_probe_get(int id);
void     sim_hash_event(uint64_t v);/* mix a harness-level event into the fingerprint */
/* mask preemption (oracle code running inside a sim thread) */
void     sim_pause(void);
void     sim_resume(void);

/* generic blocking on a predicate (evaluated by the scheduler with the world stopped).  If
 * wake_ns != 0 the thread also becomes runnable at that simulated time. */
typedef int (*sim_pred_t)(void *arg);
void     sim_block_on(sim_pred_t pred, void *arg, uint64_t wake_ns, const char *what);

/* external timer source (simmpi / simdev): returns earliest pending event time or UINT64_MAX */
typedef uint64_t (*sim_next_time_fn)(void);
void     sim_set_ext_timer(sim_next_time_fn f);

/* PRNG */
uint64_t sim_rand(int stream);
uint64_t sim_rand_below(int stream, uint64_t n);   /* uniform in [0,n) ; n>0 */
double   sim_rand_unit(int stream);
/* stateless helper */
uint64_t sim_splitmix(uint64_t *s);

/* trace (decision) export: malloc'ed text, caller frees */
char    *sim_trace_text(void);
size_t   sim_trace_len(void);

/* abnormal end handler: called (once) on deadlock / budget with the world stopped; it must
 * not return to simulated code -- typically it prints a result line and calls _exit().   */
typedef void (*sim_abort_fn)(int end_kind, const char *detail);
void     sim_set_abort_handler(sim_abort_fn f);
void     sim_dump_threads(FILE *f);

/* real-thread passthrough for harnesses that need real pthreads outside simulation */
int      sim_real_pthread_create(void *pt, const void *attr, void *(*fn)(void *), void *arg);

/* disable ASLR by re-exec (call first thing in main) */
void     sim_no_aslr(int argc, char **argv);

#ifdef __cplusplus
}
#endif
#endif
