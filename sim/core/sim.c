/* simcore: seeded serialising scheduler over real pthreads (DESIGN 3.2).
 *
 * Exactly one simulated thread (the baton holder) runs at any time; every other simulated
 * thread is parked on a private futex.  Scheduling points are (a) the __tsan_* hooks the
 * compiler planted in PaRSEC code, (b) wrapped pthread / sleep / yield calls, (c) explicit
 * sim_* calls of the harness.  All choices come from one xoshiro256** stream per concern,
 * seeded from sim_params.seed; or, in replay mode, from an explicit decision trace.
 *
 * This file is compiled WITHOUT instrumentation.
 */
#define _GNU_SOURCE
#include "sim.h"
#include <errno.h>
#include <linux/futex.h>
#include <math.h>
#include <pthread.h>
#include <sched.h>
#include <stdarg.h>
#include <stdlib.h>
#include <string.h>
#include <sys/personality.h>
#include <sys/syscall.h>
#include <sys/time.h>
#include <time.h>
#include <unistd.h>

/* ------------------------------------------------------------------ real symbols */
int __real_pthread_create(pthread_t *, const pthread_attr_t *, void *(*)(void *), void *);
int __real_pthread_join(pthread_t, void **);
int __real_pthread_mutex_lock(pthread_mutex_t *);
int __real_pthread_mutex_unlock(pthread_mutex_t *);
int __real_pthread_mutex_init(pthread_mutex_t *, const pthread_mutexattr_t *);
int __real_pthread_mutex_destroy(pthread_mutex_t *);
int __real_pthread_cond_wait(pthread_cond_t *, pthread_mutex_t *);
int __real_pthread_cond_signal(pthread_cond_t *);
int __real_pthread_cond_broadcast(pthread_cond_t *);
int __real_nanosleep(const struct timespec *, struct timespec *);
int __real_usleep(useconds_t);
int __real_sched_yield(void);
int __real_gettimeofday(struct timeval *, void *);
int __real_clock_gettime(clockid_t, struct timespec *);

/* ------------------------------------------------------------------ types */
enum { ST_FREE = 0, ST_RUNNABLE, ST_BLOCKED, ST_DONE };

typedef struct trace_ent { char kind; int tid; uint64_t cnt; int a; uint64_t b; } trace_ent_t;

typedef struct sthr {
    int id, state, rank, paused;
    volatile uint32_t futex;
    pthread_t pt;
    uint64_t cnt;
    void *(*fn)(void *);
    void *arg, *ret;
    sim_pred_t pred;
    void *pred_arg;
    uint64_t wake_ns;
    const char *what;
    uint64_t stall_until;
    int stall_next;             /* stall this thread at its next scheduling point (it just performed an atomic operation) */
    uintptr_t sp_addr[4];
    uint64_t sp_val[4];
    int sp_pos, spin, cas_spin;
    int64_t prio;
    int cond_signalled;
    void *waitcond;
    int joined;
    /* replay */
    trace_ent_t *rp;
    int rp_n, rp_i;
} sthr_t;

typedef struct { uint64_t s[4]; } rng_t;

static struct {
    int on;
    int replay, record;
    sthr_t thr[SIM_MAX_THREADS];
    int nthr;
    sthr_t *cur;
    uint64_t steps, now, quantum, max_steps, stamp, tail_after;
    int tail; long tail_cnt;
    double budget, mean_gap;
    int w[SIM_K_NKIND];
    int strategy;
    rng_t rng[SIM_RNG_N];
    /* pct */
    uint64_t pct_pts[16];
    int pct_n, pct_i;
    int64_t pct_low;
    /* stalls */
    uint64_t stall_pts[8];
    int stall_n, stall_i;
    int stall_arm;              /* the next atomic operation of any thread marks that thread for a stall right after it */
    /* stats */
    sim_stats_t st;
    uint64_t fp;
    uint64_t probes[64];
    /* trace */
    trace_ent_t *tr;
    size_t tr_n, tr_cap;
    trace_ent_t *rp_all;
    sim_next_time_fn ext_timer;
    sim_abort_fn abort_fn;
    int rr_last;
    int aborted;
} g;

static __thread sthr_t *me;
static volatile uint64_t wd_steps;
static volatile int wd_started;

/* ------------------------------------------------------------------ PRNG */
uint64_t sim_splitmix(uint64_t *s)
{
    uint64_t z = (*s += 0x9e3779b97f4a7c15ULL);
    z = (z ^ (z >> 30)) * 0xbf58476d1ce4e5b9ULL;
    z = (z ^ (z >> 27)) * 0x94d049bb133111ebULL;
    return z ^ (z >> 31);
}
static inline uint64_t rotl(uint64_t x, int k) { return (x << k) | (x >> (64 - k)); }
static uint64_t rng_next(rng_t *r)
{
    uint64_t *s = r->s, res = rotl(s[1] * 5, 7) * 9, t = s[1] << 17;
    s[2] ^= s[0]; s[3] ^= s[1]; s[1] ^= s[2]; s[0] ^= s[3]; s[2] ^= t; s[3] = rotl(s[3], 45);
    return res;
}
static void rng_seed(rng_t *r, uint64_t seed)
{
    for (int i = 0; i < 4; i++) r->s[i] = sim_splitmix(&seed);
}
uint64_t sim_rand(int k) { return rng_next(&g.rng[k]); }
uint64_t sim_rand_below(int k, uint64_t n) { return n ? rng_next(&g.rng[k]) % n : 0; }
double sim_rand_unit(int k) { return (double)(rng_next(&g.rng[k]) >> 11) * (1.0 / 9007199254740992.0); }

/* ------------------------------------------------------------------ baton */
static void fwake(sthr_t *t)
{
    __atomic_store_n(&t->futex, 1, __ATOMIC_RELEASE);
    syscall(SYS_futex, &t->futex, FUTEX_WAKE_PRIVATE, 1, NULL, NULL, 0);
}
static void fpark(sthr_t *t)
{
    while (__atomic_load_n(&t->futex, __ATOMIC_ACQUIRE) == 0)
        syscall(SYS_futex, &t->futex, FUTEX_WAIT_PRIVATE, 0, NULL, NULL, 0);
    __atomic_store_n(&t->futex, 0, __ATOMIC_RELAXED);
}

static inline void fp_mix(uint64_t v)
{
    g.fp = (g.fp ^ v) * 0x100000001b3ULL;
    g.st.nsync++;
}
void sim_hash_event(uint64_t v) { if (g.on) fp_mix(v ^ 0x5bd1e995ULL); }

static void tr_add(char kind, int tid, uint64_t cnt, int a, uint64_t b)
{
    if (!g.record) return;
    if (g.tr_n == g.tr_cap) {
        g.tr_cap = g.tr_cap ? g.tr_cap * 2 : 4096;
        g.tr = realloc(g.tr, g.tr_cap * sizeof(trace_ent_t));
    }
    g.tr[g.tr_n++] = (trace_ent_t){kind, tid, cnt, a, b};
}

static trace_ent_t *rp_lookup(sthr_t *t, char kind)
{
    while (t->rp_i < t->rp_n && t->rp[t->rp_i].cnt < t->cnt) t->rp_i++;
    /* several entries may share (tid,cnt) with different kinds (S then W) */
    for (int i = t->rp_i; i < t->rp_n && t->rp[i].cnt == t->cnt; i++)
        if (t->rp[i].kind == kind) return &t->rp[i];
    return NULL;
}

static int is_runnable(sthr_t *t)
{
    if (t->state == ST_RUNNABLE) return t->stall_until <= g.now;
    if (t->state == ST_BLOCKED) {
        if ((t->pred && t->pred(t->pred_arg)) || (t->wake_ns && t->wake_ns <= g.now)) {
            return t->stall_until <= g.now;
        }
    }
    return 0;
}

void sim_dump_threads(FILE *f)
{
    for (int i = 0; i < g.nthr; i++) {
        sthr_t *t = &g.thr[i];
        fprintf(f, "  thr %d rank %d state %s cnt %llu %s wake=%llu stall=%llu\n", t->id, t->rank,
                t->state == ST_RUNNABLE ? "RUNNABLE" : t->state == ST_BLOCKED ? "BLOCKED" : t->state == ST_DONE ? "DONE" : "FREE",
                (unsigned long long)t->cnt, t->state == ST_BLOCKED && t->what ? t->what : "",
                (unsigned long long)t->wake_ns, (unsigned long long)t->stall_until);
    }
}

static void sim_abort(int kind, const char *detail)
{
    g.st.end = kind;
    g.aborted = 1;
    g.on = 0;
    if (g.abort_fn) g.abort_fn(kind, detail);
    fprintf(stderr, "[sim] abnormal end %d: %s\n", kind, detail);
    sim_dump_threads(stderr);
    _exit(kind == SIM_END_DEADLOCK ? 3 : kind == SIM_END_NOPROGRESS ? 5 : 4);
}

/* earliest future time at which something may become runnable */
static uint64_t next_event_time(void)
{
    uint64_t best = UINT64_MAX;
    for (int i = 0; i < g.nthr; i++) {
        sthr_t *t = &g.thr[i];
        if (t->state == ST_BLOCKED && t->wake_ns > g.now && t->wake_ns < best) best = t->wake_ns;
        if ((t->state == ST_RUNNABLE || t->state == ST_BLOCKED) && t->stall_until > g.now && t->stall_until < best)
            best = t->stall_until;
    }
    if (g.ext_timer) {
        uint64_t e = g.ext_timer();
        if (e > g.now && e < best) best = e;
    }
    return best;
}

static void switch_to(sthr_t *from, sthr_t *to)
{
    if (to == from) return;
    g.st.switches++;
    g.cur = to;
    fwake(to);
    fpark(from);
}

/* Choose the next thread to run.  `self_ok`: current thread may continue.  `forced`: the
 * current thread should give way if anybody else can run.  Returns the chosen thread. */
static sthr_t *choose(sthr_t *t, int self_ok, int forced)
{
    sthr_t *cand[SIM_MAX_THREADS];
    for (;;) {
        int n = 0, self_in = 0;
        for (int i = 0; i < g.nthr; i++) {
            sthr_t *c = &g.thr[i];
            if (c == t) {
                if (self_ok && c->stall_until <= g.now) { self_in = 1; }
                else if (!self_ok && is_runnable(c)) { self_in = 1; }
                continue;
            }
            if (is_runnable(c)) cand[n++] = c;
        }
        if ((uint64_t)(n + self_in) > g.st.max_runnable) g.st.max_runnable = n + self_in;
        if (n == 0 && self_in) return t;
        if (n == 0) {
            uint64_t nt = next_event_time();
            if (nt == UINT64_MAX) sim_abort(SIM_END_DEADLOCK, "no runnable thread, no timer, no event");
            g.now = nt;
            g.st.time_jumps++;
            continue;
        }
        g.st.decisions++;
        sthr_t *pick = NULL;
        if (g.replay && !g.tail) {
            trace_ent_t *e = rp_lookup(t, 'W');
            if (e) {
                if (e->a == t->id && self_in) pick = t;
                else for (int i = 0; i < n; i++) if (cand[i]->id == e->a) pick = cand[i];
            }
            if (!pick) { /* default: round robin after t */
                if (!forced && self_in) pick = t;
                else {
                    int bestd = 1 << 30;
                    for (int i = 0; i < n; i++) {
                        int d = (cand[i]->id - t->id + SIM_MAX_THREADS) % SIM_MAX_THREADS;
                        if (d < bestd) { bestd = d; pick = cand[i]; }
                    }
                }
            }
            return pick;
        }
        switch (g.strategy) {
        case SIM_STRAT_PCT: {
            if (forced && self_in) t->prio = --g.pct_low;   /* a yielding thread drops below everyone */
            int64_t bp = INT64_MIN;
            if (self_in) { pick = t; bp = t->prio; }
            for (int i = 0; i < n; i++) if (cand[i]->prio > bp) { bp = cand[i]->prio; pick = cand[i]; }
            break;
        }
        case SIM_STRAT_RR: {
            int bestd = 1 << 30;
            for (int i = 0; i < n; i++) {
                int d = (cand[i]->id - t->id + SIM_MAX_THREADS) % SIM_MAX_THREADS;
                if (d < bestd) { bestd = d; pick = cand[i]; }
            }
            break;
        }
        default: /* random walk */
            if (self_in && !forced) {
                /* blocked->self again is only possible when !self_ok; treat self as one option */
                uint64_t k = rng_next(&g.rng[SIM_RNG_SCHED]) % (uint64_t)(n + 1);
                pick = k == (uint64_t)n ? t : cand[k];
            } else {
                pick = cand[rng_next(&g.rng[SIM_RNG_SCHED]) % (uint64_t)n];
            }
        }
        return pick;
    }
}

static void maybe_stall(sthr_t *t)
{
    /* record mode: at pre-drawn global step indices, stall a random live thread */
    while (g.stall_i < g.stall_n && g.steps >= g.stall_pts[g.stall_i]) {
        g.stall_i++;
        /* half of the stalls are not given to a random thread now but to whichever thread performs the next atomic
         * operation (CAS, fetch-and-add, lock, unlock ...), right after that operation: the thread that has just
         * published something is the one whose delay opens the windows that matter */
        if (rng_next(&g.rng[SIM_RNG_SCHED]) & 1) { g.stall_arm = 1; continue; }
        int live[SIM_MAX_THREADS], n = 0;
        for (int i = 0; i < g.nthr; i++) if (g.thr[i].state == ST_RUNNABLE || g.thr[i].state == ST_BLOCKED) live[n++] = i;
        if (!n) return;
        sthr_t *v = &g.thr[live[rng_next(&g.rng[SIM_RNG_SCHED]) % n]];
        /* log-uniform 1us .. 10ms simulated */
        double u = sim_rand_unit(SIM_RNG_SCHED);
        uint64_t d = (uint64_t)(1000.0 * pow(10000.0, u));
        v->stall_until = g.now + d;
        g.st.stalls_fired++;
        tr_add('S', t->id, t->cnt, v->id, d);
    }
}

/* a decision point for the running thread */
static void decide(sthr_t *t, int forced)
{
    sthr_t *n = choose(t, 1, forced);
    if (n != t || forced) tr_add('W', t->id, t->cnt, n->id, 0);
    if (n != t) {
        if (forced) g.st.forced_switches++; else g.st.preemptions++;
        t->spin = 0;
        switch_to(t, n);
    }
}

static inline void draw_budget(void)
{
    double u = sim_rand_unit(SIM_RNG_SCHED);
    if (u < 1e-12) u = 1e-12;
    g.budget = -g.mean_gap * log(u);
}

static void sp_slow(sthr_t *t, int kind, int forced);

/* the hot path */
static inline void sp(int kind)
{
    sthr_t *t = me;
    if (!t || !g.on || t->paused) return;
    t->cnt++;
    g.steps++;
    g.now += g.quantum;
    if (g.tail) {
        if (--g.tail_cnt > 0 && g.steps < g.max_steps) return;
        sp_slow(t, kind, 0);
        return;
    }
    if (g.replay) {
        if ((t->rp_i < t->rp_n && t->rp[t->rp_i].cnt <= t->cnt) || g.steps >= g.tail_after) sp_slow(t, kind, 0);
        return;
    }
    if (t->stall_next || (g.stall_arm && kind == SIM_K_ATOMIC)) { sp_slow(t, kind, 0); return; }
    g.budget -= g.w[kind];
    if (g.budget > 0 && g.steps < g.tail_after) return;
    sp_slow(t, kind, 0);
}

/* fair tail (bounded liveness): after tail_after scheduling points every fault stops and the
 * schedule becomes round-robin with a fixed time slice; if the workload still has not finished
 * when the step budget runs out, that is "no progress within N steps once faults stopped". */
static void enter_tail(void)
{
    g.tail = 1;
    g.strategy = SIM_STRAT_RR;
    g.stall_n = 0;
    g.stall_arm = 0;
    for (int i = 0; i < g.nthr; i++) { g.thr[i].stall_until = 0; g.thr[i].stall_next = 0; }
    g.tail_cnt = 0;
}

static void sp_slow(sthr_t *t, int kind, int forced)
{
    (void)kind;
    if (g.steps > g.max_steps) sim_abort(g.tail ? SIM_END_NOPROGRESS : SIM_END_BUDGET, g.tail ? "no completion within the step budget although faults stopped and scheduling was round-robin fair for the second half" : "step budget exhausted");
    if (!g.tail && g.steps >= g.tail_after) enter_tail();
    if (g.tail) {
        if (g.tail_cnt <= 0 || forced) { g.tail_cnt = 3000; decide(t, 1); }
        return;
    }
    if (g.replay) {
        trace_ent_t *e;
        if ((e = rp_lookup(t, 'S'))) {
            if (e->a >= 0 && e->a < g.nthr) { g.thr[e->a].stall_until = g.now + e->b; g.st.stalls_fired++; }
        }
        e = rp_lookup(t, 'W');
        if (e || forced) decide(t, forced || (e && e->a != t->id && t->stall_until > g.now));
        return;
    }
    if (g.stall_n) maybe_stall(t);
    if (t->stall_next) {
        /* the access after the marked atomic operation: this thread now stalls */
        t->stall_next = 0;
        double u = sim_rand_unit(SIM_RNG_SCHED);
        uint64_t d = (uint64_t)(10000.0 * pow(1000.0, u));      /* log-uniform 10us .. 10ms simulated */
        t->stall_until = g.now + d;
        g.st.stalls_fired++;
        tr_add('S', t->id, t->cnt, t->id, d);
        decide(t, 1);
        return;
    }
    if (g.stall_arm && kind == SIM_K_ATOMIC) { g.stall_arm = 0; t->stall_next = 1; }
    if (g.strategy == SIM_STRAT_PCT) {
        if (!forced) {
            /* priority change point */
            while (g.pct_i < g.pct_n && g.steps >= g.pct_pts[g.pct_i]) { g.pct_i++; t->prio = --g.pct_low; }
            g.budget = 256;  /* re-evaluate priorities regularly (wake-ups by time) */
        }
        decide(t, forced);
        return;
    }
    if (!forced) draw_budget();
    decide(t, forced || t->stall_until > g.now);
}

/* forced decision (yield, spin) */
static void sp_forced(void)
{
    sthr_t *t = me;
    if (!t || !g.on || t->paused) return;
    t->cnt++;
    g.steps++;
    g.now += g.quantum;
    sp_slow(t, SIM_K_ATOMIC, 1);
}

/* spin hint: called with the address/value just observed by a wait-like access */
static inline void spin_hint(sthr_t *t, uintptr_t addr, uint64_t val)
{
    for (int i = 0; i < 4; i++) {
        if (t->sp_addr[i] == addr) {
            if (t->sp_val[i] == val) {
                if (++t->spin >= 2) { t->spin = 0; g.st.spin_yields++; sp_forced(); }
            } else {
                t->sp_val[i] = val;
                t->spin = 0;
            }
            return;
        }
    }
    t->sp_addr[t->sp_pos] = addr;
    t->sp_val[t->sp_pos] = val;
    t->sp_pos = (t->sp_pos + 1) & 3;
}

/* block the current thread until pred() or wake time */
void sim_block_on(sim_pred_t pred, void *arg, uint64_t wake_ns, const char *what)
{
    sthr_t *t = me;
    if (!t || !g.on) {
        /* outside simulation: poll in real time */
        while (pred && !pred(arg)) __real_sched_yield();
        return;
    }
    t->cnt++;
    g.steps++;
    g.now += g.quantum;
    if (g.steps > g.max_steps) sim_abort(g.tail ? SIM_END_NOPROGRESS : SIM_END_BUDGET, "step budget exhausted");
    if (!g.tail && g.steps >= g.tail_after) enter_tail();
    t->pred = pred; t->pred_arg = arg; t->wake_ns = wake_ns; t->what = what;
    t->state = ST_BLOCKED;
    if (g.tail) { /* nothing: no faults in the tail */ }
    else if (g.replay) {
        trace_ent_t *e = rp_lookup(t, 'S');
        if (e && e->a >= 0 && e->a < g.nthr) { g.thr[e->a].stall_until = g.now + e->b; g.st.stalls_fired++; }
    } else if (g.stall_n) maybe_stall(t);
    sthr_t *n = choose(t, 0, 1);
    tr_add('W', t->id, t->cnt, n->id, 0);
    if (n != t) { g.st.forced_switches++; switch_to(t, n); }
    t->state = ST_RUNNABLE;
    t->pred = NULL; t->wake_ns = 0; t->what = NULL; t->spin = 0;
}

/* ------------------------------------------------------------------ public helpers */
int sim_active(void) { return g.on && me != NULL; }
uint64_t sim_stamp(void) { return ++g.stamp; }
uint64_t sim_now(void) { return g.now; }
uint64_t sim_steps(void) { return g.steps; }
int sim_self(void) { return me ? me->id : -1; }
int sim_rank(void) { return me ? me->rank : 0; }
void sim_set_rank(int r) { if (me) me->rank = r; }
void sim_probe(int id) { if (id >= 0 && id < 64) g.probes[id]++; }
uint64_t sim_probe_get(int id) { return id >= 0 && id < 64 ? g.probes[id] : 0; }
void sim_pause(void) { if (me) me->paused++; }
void sim_resume(void) { if (me) me->paused--; }
void sim_set_ext_timer(sim_next_time_fn f) { g.ext_timer = f; }
void sim_set_abort_handler(sim_abort_fn f) { g.abort_fn = f; }
void sim_yield(void) { sp_forced(); }
void sim_point(void) { sp(SIM_K_ATOMIC); }
void sim_delay(uint64_t ns)
{
    if (!me || !g.on) return;
    sim_block_on(NULL, NULL, g.now + (ns ? ns : 1), "sleep");
}
int sim_real_pthread_create(void *pt, const void *attr, void *(*fn)(void *), void *arg)
{
    return __real_pthread_create((pthread_t *)pt, (const pthread_attr_t *)attr, fn, arg);
}

size_t sim_trace_len(void) { return g.tr_n; }
char *sim_trace_text(void)
{
    size_t cap = g.tr_n * 40 + 16, n = 0;
    char *s = malloc(cap);
    s[0] = 0;
    for (size_t i = 0; i < g.tr_n; i++) {
        trace_ent_t *e = &g.tr[i];
        n += snprintf(s + n, cap - n, "%c %d %llu %d %llu\n", e->kind, e->tid, (unsigned long long)e->cnt, e->a, (unsigned long long)e->b);
    }
    return s;
}

/* ------------------------------------------------------------------ watchdog */
static void *watchdog(void *arg)
{
    (void)arg;
    uint64_t last = 0;
    int idle = 0;
    for (;;) {
        struct timespec ts = {2, 0};
        __real_nanosleep(&ts, NULL);
        uint64_t s = g.steps + g.stamp;
        if (g.on && s == last) {
            if (++idle >= 45) {
                fprintf(stderr, "[sim] INFRA watchdog: no scheduling point for 90 s (uninstrumented spin?)\n");
                sim_dump_threads(stderr);
                _exit(2);
            }
        } else idle = 0;
        last = s;
    }
    return NULL;
}

/* ------------------------------------------------------------------ life cycle */
static int cmp_trace(const void *a, const void *b)
{
    const trace_ent_t *x = a, *y = b;
    if (x->tid != y->tid) return x->tid - y->tid;
    if (x->cnt != y->cnt) return x->cnt < y->cnt ? -1 : 1;
    return x->kind == y->kind ? 0 : (x->kind == 'S' ? -1 : 1);
}

void sim_begin(const sim_params_t *p)
{
    if (!wd_started) {
        pthread_t w;
        wd_started = 1;
        __real_pthread_create(&w, NULL, watchdog, NULL);
        pthread_detach(w);
    }
    free(g.tr);
    free(g.rp_all);
    sim_next_time_fn ext = g.ext_timer;
    sim_abort_fn ab = g.abort_fn;
    memset(&g, 0, sizeof(g));
    g.ext_timer = ext;
    g.abort_fn = ab;
    uint64_t s = p->seed;
    for (int i = 0; i < SIM_RNG_N; i++) rng_seed(&g.rng[i], sim_splitmix(&s) ^ (0x1234567ULL * (i + 1)));
    rng_t *kr = &g.rng[SIM_RNG_SCHED];
    g.quantum = p->quantum_ns ? p->quantum_ns : 20;
    g.max_steps = p->max_steps ? p->max_steps : 400000000ULL;
    g.tail_after = p->tail_after ? p->tail_after : g.max_steps / 2;
    g.record = p->record;
    g.fp = 0xcbf29ce484222325ULL;
    /* draw order is fixed whatever the params say, so explicit params do not shift streams */
    uint64_t r_strat = rng_next(kr);
    double r_gap = (double)(rng_next(kr) >> 11) / 9007199254740992.0;
    uint64_t r_w = rng_next(kr), r_depth = rng_next(kr), r_stall = rng_next(kr);
    g.strategy = p->strategy >= 0 ? p->strategy : (r_strat % 4 == 0 ? SIM_STRAT_PCT : SIM_STRAT_RW);
    {
        double lo = p->gap_lo > 0 ? p->gap_lo : 16.0, hi = p->gap_hi > lo ? p->gap_hi : (p->gap_lo > 0 ? lo * 64 : 64000.0);
        g.mean_gap = p->mean_gap > 0 ? p->mean_gap : lo * pow(hi / lo, r_gap);
    }
    if (p->w[0] | p->w[1] | p->w[2]) memcpy(g.w, p->w, sizeof(g.w));
    else {
        static const int wp[4] = {0, 1, 1, 4}, wv[4] = {4, 4, 16, 16};
        g.w[SIM_K_PLAIN] = wp[r_w & 3];
        g.w[SIM_K_VOLATILE] = wv[(r_w >> 2) & 3];
        g.w[SIM_K_ATOMIC] = 16;
    }
    if (g.strategy == SIM_STRAT_PCT) {
        int d = p->pct_depth >= 0 ? p->pct_depth : (int)(r_depth % 6);
        uint64_t len = p->pct_len ? p->pct_len : 20000;
        if (d > 16) d = 16;
        g.pct_n = d;
        for (int i = 0; i < d; i++) g.pct_pts[i] = 1 + rng_next(kr) % len;
        for (int i = 0; i < d; i++) for (int j = i + 1; j < d; j++)
            if (g.pct_pts[j] < g.pct_pts[i]) { uint64_t x = g.pct_pts[i]; g.pct_pts[i] = g.pct_pts[j]; g.pct_pts[j] = x; }
        g.budget = 64;
    } else {
        draw_budget();
    }
    {
        int ns = p->stalls >= 0 ? p->stalls : (r_stall % 2 == 0 ? 1 + (int)((r_stall >> 8) % 3) : 0);
        uint64_t len = p->stall_len ? p->stall_len : 20000;
        if (ns > 8) ns = 8;
        g.stall_n = ns;
        for (int i = 0; i < ns; i++) g.stall_pts[i] = 1 + rng_next(kr) % len;
        for (int i = 0; i < ns; i++) for (int j = i + 1; j < ns; j++)
            if (g.stall_pts[j] < g.stall_pts[i]) { uint64_t x = g.stall_pts[i]; g.stall_pts[i] = g.stall_pts[j]; g.stall_pts[j] = x; }
    }
    g.st.strategy = g.strategy;
    /* main thread = sim thread 0 */
    sthr_t *t = &g.thr[0];
    memset(t, 0, sizeof(*t));
    t->id = 0; t->state = ST_RUNNABLE; t->pt = pthread_self();
    t->prio = (int64_t)(rng_next(kr) >> 2);
    g.nthr = 1;
    g.cur = t;
    me = t;
    if (p->trace_text) {
        g.replay = 1;
        g.stall_n = 0;
        /* parse */
        size_t n = 0, cap = 1024;
        trace_ent_t *a = malloc(cap * sizeof(*a));
        const char *q = p->trace_text;
        while (*q) {
            char k; int tid, aa; unsigned long long cnt, bb;
            int used = 0;
            if (sscanf(q, " %c %d %llu %d %llu%n", &k, &tid, &cnt, &aa, &bb, &used) >= 5 && tid >= 0 && tid < SIM_MAX_THREADS) {
                if (n == cap) { cap *= 2; a = realloc(a, cap * sizeof(*a)); }
                a[n++] = (trace_ent_t){k, tid, cnt, aa, bb};
                q += used;
            }
            while (*q && *q != '\n') q++;
            if (*q) q++;
        }
        qsort(a, n, sizeof(*a), cmp_trace);
        g.rp_all = a;
        size_t i = 0;
        while (i < n) {
            size_t j = i;
            while (j < n && a[j].tid == a[i].tid) j++;
            g.thr[a[i].tid].rp = &a[i];
            g.thr[a[i].tid].rp_n = (int)(j - i);
            i = j;
        }
    }
    g.on = 1;
}

void sim_end(sim_stats_t *out)
{
    g.on = 0;
    g.st.steps = g.steps;
    g.st.sim_ns = g.now;
    g.st.fingerprint = g.fp;
    g.st.nthreads = g.nthr;
    if (out) *out = g.st;
    me = NULL;
}

/* ------------------------------------------------------------------ threads */
static void *trampoline(void *arg)
{
    sthr_t *t = arg;
    me = t;
    fpark(t);               /* wait for the baton */
    t->ret = t->fn(t->arg);
    /* exit: hand the baton to somebody else */
    t->cnt++;
    g.steps++;
    t->state = ST_DONE;
    fp_mix(((uint64_t)t->id << 48) ^ 0xE0);
    if (g.on) {
        sthr_t *n = choose(t, 0, 1);
        tr_add('W', t->id, t->cnt, n->id, 0);
        g.st.switches++;
        g.cur = n;
        me = NULL;
        fwake(n);
    }
    return NULL;
}

int __wrap_pthread_create(pthread_t *pt, const pthread_attr_t *attr, void *(*fn)(void *), void *arg)
{
    sthr_t *c = me;
    if (!c || !g.on) return __real_pthread_create(pt, attr, fn, arg);
    if (g.nthr >= SIM_MAX_THREADS) { fprintf(stderr, "[sim] too many threads\n"); _exit(2); }
    sthr_t *t = &g.thr[g.nthr];
    rp_lookup(c, 'W'); /* no-op; keeps cursor monotone */
    trace_ent_t *rp = t->rp; int rp_n = t->rp_n;
    memset(t, 0, sizeof(*t));
    t->rp = rp; t->rp_n = rp_n;
    t->id = g.nthr++;
    t->state = ST_RUNNABLE;
    t->rank = c->rank;
    t->fn = fn; t->arg = arg;
    t->prio = g.replay ? 0 : (int64_t)(rng_next(&g.rng[SIM_RNG_SCHED]) >> 2);
    pthread_attr_t a;
    pthread_attr_init(&a);
    pthread_attr_setstacksize(&a, 4 << 20);
    int rc = __real_pthread_create(&t->pt, &a, trampoline, t);
    pthread_attr_destroy(&a);
    if (rc) { fprintf(stderr, "[sim] real pthread_create failed %d\n", rc); _exit(2); }
    if (pt) *pt = t->pt;
    fp_mix(((uint64_t)c->id << 48) ^ 0xC0 ^ ((uint64_t)t->id << 8));
    sp_forced();
    return 0;
}

static int pred_done(void *a) { return ((sthr_t *)a)->state == ST_DONE; }

int __wrap_pthread_join(pthread_t pt, void **ret)
{
    sthr_t *c = me;
    if (!c || !g.on) return __real_pthread_join(pt, ret);
    sthr_t *t = NULL;
    for (int i = 1; i < g.nthr; i++) if (pthread_equal(g.thr[i].pt, pt) && !g.thr[i].joined) { t = &g.thr[i]; break; }
    if (!t) return __real_pthread_join(pt, ret);
    if (t->state != ST_DONE) sim_block_on(pred_done, t, 0, "join");
    else sp(SIM_K_ATOMIC);
    t->joined = 1;
    if (ret) *ret = t->ret;
    return __real_pthread_join(pt, NULL);
}

/* ------------------------------------------------------------------ mutex / cond (side table) */
#define MTX_TAB 1024
typedef struct { void *key; sthr_t *owner; } mtx_t;
static mtx_t mtab[MTX_TAB];

static mtx_t *mtx_get(void *m)
{
    uintptr_t h = ((uintptr_t)m >> 3) * 0x9E3779B97F4A7C15ULL;
    int tomb = -1;
    for (int i = 0; i < MTX_TAB; i++) {
        int k = (int)((h >> 40) + i) & (MTX_TAB - 1);
        if (mtab[k].key == m) return &mtab[k];
        if (mtab[k].key == (void *)1 && tomb < 0) tomb = k;
        if (mtab[k].key == NULL) {
            if (tomb >= 0) k = tomb;
            mtab[k].key = m; mtab[k].owner = NULL;
            return &mtab[k];
        }
    }
    fprintf(stderr, "[sim] mutex table full\n");
    _exit(2);
}
static void mtx_drop(void *m)
{
    uintptr_t h = ((uintptr_t)m >> 3) * 0x9E3779B97F4A7C15ULL;
    for (int i = 0; i < MTX_TAB; i++) {
        int k = (int)((h >> 40) + i) & (MTX_TAB - 1);
        if (mtab[k].key == m) { mtab[k].key = (void *)1; mtab[k].owner = NULL; return; }
        if (mtab[k].key == NULL) return;
    }
}
static int pred_mtx_free(void *a) { return ((mtx_t *)a)->owner == NULL; }

int __wrap_pthread_mutex_init(pthread_mutex_t *m, const pthread_mutexattr_t *a)
{
    mtx_drop(m);
    return __real_pthread_mutex_init(m, a);
}
int __wrap_pthread_mutex_destroy(pthread_mutex_t *m)
{
    mtx_drop(m);
    return 0;
}
int __wrap_pthread_mutex_lock(pthread_mutex_t *m)
{
    sthr_t *t = me;
    if (!t || !g.on) return __real_pthread_mutex_lock(m);
    sp(SIM_K_ATOMIC);
    mtx_t *x = mtx_get(m);
    while (x->owner) {
        if (x->owner == t) { fprintf(stderr, "[sim] recursive mutex lock\n"); sim_abort(SIM_END_DEADLOCK, "self-deadlock on mutex"); }
        sim_block_on(pred_mtx_free, x, 0, "mutex");
        x = mtx_get(m);
    }
    x->owner = t;
    fp_mix(((uint64_t)t->id << 48) ^ 0xA100);
    return 0;
}
int __wrap_pthread_mutex_unlock(pthread_mutex_t *m)
{
    sthr_t *t = me;
    if (!t || !g.on) return __real_pthread_mutex_unlock(m);
    mtx_t *x = mtx_get(m);
    x->owner = NULL;
    fp_mix(((uint64_t)t->id << 48) ^ 0xA200);
    sp(SIM_K_ATOMIC);
    return 0;
}

static int pred_signalled(void *a) { return ((sthr_t *)a)->cond_signalled; }

int __wrap_pthread_cond_wait(pthread_cond_t *c, pthread_mutex_t *m)
{
    sthr_t *t = me;
    if (!t || !g.on) return __real_pthread_cond_wait(c, m);
    mtx_t *x = mtx_get(m);
    x->owner = NULL;
    t->cond_signalled = 0;
    fp_mix(((uint64_t)t->id << 48) ^ 0xA300);
    t->waitcond = c;
    sim_block_on(pred_signalled, t, 0, "cond");
    t->waitcond = NULL;
    return __wrap_pthread_mutex_lock(m);
}

static int cond_waiters(pthread_cond_t *c, sthr_t **out)
{
    int n = 0;
    for (int i = 0; i < g.nthr; i++) {
        sthr_t *t = &g.thr[i];
        if (t->state == ST_BLOCKED && t->pred == pred_signalled && t->waitcond == (void *)c && !t->cond_signalled) out[n++] = t;
    }
    return n;
}

int __wrap_pthread_cond_signal(pthread_cond_t *c)
{
    sthr_t *t = me;
    if (!t || !g.on) return __real_pthread_cond_signal(c);
    sp(SIM_K_ATOMIC);
    sthr_t *w[SIM_MAX_THREADS];
    int n = cond_waiters(c, w);
    if (n) {
        int k = 0;
        if (g.replay) {
            trace_ent_t *e = rp_lookup(t, 'C');
            if (e) for (int i = 0; i < n; i++) if (w[i]->id == e->a) k = i;
        } else if (n > 1) {
            k = (int)(rng_next(&g.rng[SIM_RNG_SCHED]) % (uint64_t)n);
        }
        if (n > 1) tr_add('C', t->id, t->cnt, w[k]->id, 0);
        w[k]->cond_signalled = 1;
    }
    fp_mix(((uint64_t)t->id << 48) ^ 0xA400);
    return 0;
}
int __wrap_pthread_cond_broadcast(pthread_cond_t *c)
{
    sthr_t *t = me;
    if (!t || !g.on) return __real_pthread_cond_broadcast(c);
    sp(SIM_K_ATOMIC);
    sthr_t *w[SIM_MAX_THREADS];
    int n = cond_waiters(c, w);
    for (int i = 0; i < n; i++) w[i]->cond_signalled = 1;
    fp_mix(((uint64_t)t->id << 48) ^ 0xA500);
    return 0;
}

/* ------------------------------------------------------------------ time */
int __wrap_nanosleep(const struct timespec *req, struct timespec *rem)
{
    if (!me || !g.on) return __real_nanosleep(req, rem);
    uint64_t ns = (uint64_t)req->tv_sec * 1000000000ULL + (uint64_t)req->tv_nsec;
    sim_delay(ns);
    if (rem) { rem->tv_sec = 0; rem->tv_nsec = 0; }
    return 0;
}
int __wrap_usleep(useconds_t us)
{
    if (!me || !g.on) return __real_usleep(us);
    sim_delay((uint64_t)us * 1000ULL);
    return 0;
}
int __wrap_sched_yield(void)
{
    if (!me || !g.on) return __real_sched_yield();
    sp_forced();
    return 0;
}
#define SIM_EPOCH 1700000000ULL
static uint64_t skewed_now(void) { return g.now + (uint64_t)(me ? me->rank : 0) * 1000003ULL; }
int __wrap_gettimeofday(struct timeval *tv, void *tz)
{
    if (!me || !g.on) return __real_gettimeofday(tv, tz);
    uint64_t n = skewed_now();
    tv->tv_sec = SIM_EPOCH + n / 1000000000ULL;
    tv->tv_usec = (n % 1000000000ULL) / 1000;
    return 0;
}
int __wrap_clock_gettime(clockid_t id, struct timespec *ts)
{
    if (!me || !g.on) return __real_clock_gettime(id, ts);
    uint64_t n = skewed_now();
    ts->tv_sec = SIM_EPOCH + n / 1000000000ULL;
    ts->tv_nsec = n % 1000000000ULL;
    return 0;
}

/* ------------------------------------------------------------------ tsan hooks */
#define PC() ((uint64_t)(uintptr_t)__builtin_return_address(0))
#define RD(n) void __tsan_read##n(void *a) { (void)a; sp(SIM_K_PLAIN); } \
              void __tsan_unaligned_read##n(void *a) { (void)a; sp(SIM_K_PLAIN); }
#define WR(n) void __tsan_write##n(void *a) { (void)a; sp(SIM_K_PLAIN); } \
              void __tsan_unaligned_write##n(void *a) { (void)a; sp(SIM_K_PLAIN); }
RD(1) RD(2) RD(4) RD(8) RD(16) WR(1) WR(2) WR(4) WR(8) WR(16)
void __tsan_read_range(void *a, unsigned long n) { (void)a; (void)n; sp(SIM_K_PLAIN); }
void __tsan_write_range(void *a, unsigned long n) { (void)a; (void)n; sp(SIM_K_PLAIN); }
void __tsan_init(void) {}
void __tsan_func_entry(void *pc) { (void)pc; }
void __tsan_func_exit(void) {}
void __tsan_vptr_update(void **a, void *b) { (void)a; (void)b; }
void __tsan_vptr_read(void **a) { (void)a; }

#define VRD(n, T) void __tsan_volatile_read##n(void *a) { \
        sthr_t *t = me; if (!t || !g.on || t->paused) return; \
        sp(SIM_K_VOLATILE); uint64_t v = (uint64_t)*(volatile T *)a; spin_hint(t, (uintptr_t)a, v); }
VRD(1, uint8_t) VRD(2, uint16_t) VRD(4, uint32_t) VRD(8, uint64_t)
void __tsan_volatile_read16(void *a) { (void)a; sp(SIM_K_VOLATILE); }
#define VWR(n) void __tsan_volatile_write##n(void *a) { (void)a; sthr_t *t = me; if (t) t->spin = 0; sp(SIM_K_VOLATILE); }
VWR(1) VWR(2) VWR(4) VWR(8) VWR(16)

static inline void at_pre(uint64_t pc, int op)
{
    sthr_t *t = me;
    if (!t || !g.on || t->paused) return;
    sp(SIM_K_ATOMIC);
    fp_mix(((uint64_t)t->id << 48) ^ ((uint64_t)op << 40) ^ (pc & 0xffffffffffULL));
}
static inline void at_cas_result(void *a, int ok)
{
    sthr_t *t = me;
    if (!t || !g.on || t->paused) return;
    if (ok) { t->spin = 0; t->cas_spin = 0; return; }
    g.st.cas_fail++;
    fp_mix(0xCF);
    /* two failed CAS in a row without an intervening success: treat as spinning */
    (void)a;
    if (++t->cas_spin >= 2) { t->cas_spin = 0; g.st.spin_yields++; sp_forced(); }
}

#define ATOMICS(bits, T) \
T __tsan_atomic##bits##_fetch_add(volatile T *a, T v, int mo) { (void)mo; at_pre(PC(), 1); if (me) me->spin = 0; return __atomic_fetch_add(a, v, __ATOMIC_SEQ_CST); } \
T __tsan_atomic##bits##_fetch_sub(volatile T *a, T v, int mo) { (void)mo; at_pre(PC(), 2); if (me) me->spin = 0; return __atomic_fetch_sub(a, v, __ATOMIC_SEQ_CST); } \
T __tsan_atomic##bits##_fetch_or(volatile T *a, T v, int mo) { (void)mo; at_pre(PC(), 3); return __atomic_fetch_or(a, v, __ATOMIC_SEQ_CST); } \
T __tsan_atomic##bits##_fetch_and(volatile T *a, T v, int mo) { (void)mo; at_pre(PC(), 4); return __atomic_fetch_and(a, v, __ATOMIC_SEQ_CST); } \
T __tsan_atomic##bits##_fetch_xor(volatile T *a, T v, int mo) { (void)mo; at_pre(PC(), 5); return __atomic_fetch_xor(a, v, __ATOMIC_SEQ_CST); } \
T __tsan_atomic##bits##_exchange(volatile T *a, T v, int mo) { (void)mo; at_pre(PC(), 6); return __atomic_exchange_n(a, v, __ATOMIC_SEQ_CST); } \
T __tsan_atomic##bits##_load(const volatile T *a, int mo) { (void)mo; at_pre(PC(), 7); T v = __atomic_load_n(a, __ATOMIC_SEQ_CST); sthr_t *t = me; if (t && g.on && !t->paused) spin_hint(t, (uintptr_t)a, (uint64_t)v); return v; } \
void __tsan_atomic##bits##_store(volatile T *a, T v, int mo) { (void)mo; at_pre(PC(), 8); __atomic_store_n(a, v, __ATOMIC_SEQ_CST); } \
int __tsan_atomic##bits##_compare_exchange_strong(volatile T *a, T *c, T v, int mo, int fmo) { (void)mo; (void)fmo; at_pre(PC(), 9); \
    int ok = __atomic_compare_exchange_n(a, c, v, 0, __ATOMIC_SEQ_CST, __ATOMIC_SEQ_CST); at_cas_result((void *)a, ok); return ok; } \
int __tsan_atomic##bits##_compare_exchange_weak(volatile T *a, T *c, T v, int mo, int fmo) { (void)mo; (void)fmo; at_pre(PC(), 9); \
    int ok = __atomic_compare_exchange_n(a, c, v, 0, __ATOMIC_SEQ_CST, __ATOMIC_SEQ_CST); at_cas_result((void *)a, ok); return ok; } \
T __tsan_atomic##bits##_compare_exchange_val(volatile T *a, T c, T v, int mo, int fmo) { (void)mo; (void)fmo; at_pre(PC(), 9); \
    T e = c; int ok = __atomic_compare_exchange_n(a, &e, v, 0, __ATOMIC_SEQ_CST, __ATOMIC_SEQ_CST); at_cas_result((void *)a, ok); return e; }

ATOMICS(8, uint8_t)
ATOMICS(16, uint16_t)
ATOMICS(32, uint32_t)
ATOMICS(64, uint64_t)

/* 128-bit: cmpxchg16b via __sync (needs -mcx16); plain ops are safe under the baton but we
 * keep them genuinely atomic for non-simulated callers. */
typedef unsigned __int128 u128;
int __tsan_atomic128_compare_exchange_strong(volatile u128 *a, u128 *c, u128 v, int mo, int fmo)
{
    (void)mo; (void)fmo;
    at_pre(PC(), 10);
    u128 old = __sync_val_compare_and_swap(a, *c, v);
    int ok = old == *c;
    if (!ok) *c = old;
    at_cas_result((void *)a, ok);
    return ok;
}
#define A128(name, expr) u128 __tsan_atomic128_##name(volatile u128 *a, u128 v, int mo) { (void)mo; at_pre(PC(), 11); \
    for (;;) { u128 o = *a; u128 n = (expr); if (__sync_bool_compare_and_swap(a, o, n)) return o; } }
A128(fetch_add, o + v)
A128(fetch_sub, o - v)
A128(fetch_or, o | v)
A128(fetch_and, o & v)
A128(exchange, v)
u128 __tsan_atomic128_load(const volatile u128 *a, int mo) { (void)mo; at_pre(PC(), 12); return __sync_val_compare_and_swap((volatile u128 *)a, 0, 0); }

void __tsan_atomic_thread_fence(int mo) { (void)mo; at_pre(PC(), 13); }
void __tsan_atomic_signal_fence(int mo) { (void)mo; }

/* ------------------------------------------------------------------ ASLR */
void sim_no_aslr(int argc, char **argv)
{
    (void)argc;
    int p = personality(0xffffffff);
    if (p != -1 && !(p & ADDR_NO_RANDOMIZE) && !getenv("VERIF_ASLR_DONE")) {
        personality(p | ADDR_NO_RANDOMIZE);
        setenv("VERIF_ASLR_DONE", "1", 1);
        execv("/proc/self/exe", argv);
    }
}
