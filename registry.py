"""Registry: property id -> harness spec (sources, budgets, what is real / stub)."""

L0_STUB = ["OS thread scheduler (seeded serialising scheduler over parked pthreads)", "clock (discrete-event simulated clock)"]

def l0(prop, name, real, bounds, quick=(45, 400000), thorough=(900, 40000000), extra_instr=(), extra_plain=(), **kw):
    d = {"property": prop, "harness": name,
         "instr": ["harness/l0/%s_shim.c" % name] + list(extra_instr),
         "plain": ["harness/l0/%s.c" % name] + list(extra_plain),
         "real": real, "stub": L0_STUB, "bounds": bounds,
         "budget": {"quick": {"time": quick[0], "runs": quick[1]}, "thorough": {"time": thorough[0], "runs": thorough[1]}}}
    d.update(kw)
    return d

REGISTRY = {}

L2_STUB = ["OS thread scheduler (seeded serialising scheduler over parked pthreads)", "clock (discrete-event simulated clock)",
           "MPI library and network (simmpi: in-process MPI subset with seeded delays / reordering / partial completion)",
           "hwloc topology (HWLOC_SYNTHETIC 16 cores)"]

def l2(prop, name, driver, harness_src, ranks, real, bounds, quick=(100, 100000), thorough=(1500, 10000000), knobs=(), engine="simcore-L2", **kw):
    d = {"property": prop, "harness": name, "instr": list(driver), "plain": list(harness_src), "ranked": ranks,
         "real": real, "stub": L2_STUB, "bounds": bounds, "engine": engine, "knobs_cli": list(knobs),
         "budget": {"quick": {"time": quick[0], "runs": quick[1]}, "thorough": {"time": thorough[0], "runs": thorough[1]}}}
    d.update(kw)
    return d

REGISTRY["C30"] = l0("C30", "c30_lifo",
    real=["parsec/class/lifo.h (inline 128-bit CAS variant, via instrumented shim)", "parsec/class/parsec_lifo.c (out-of-line copy)", "parsec/class/parsec_object.c"],
    bounds="2-4 sim-threads, <= 22 operations (push/chain/pop/try_pop), 0-4 initial + 1-3 items per thread, items recycled; WGL linearizability + conservation")

DTD_REAL = ["all of libparsec, instrumented: DTD front end (insert_function.c, overlap_strategies.c, parsec_dtd_data_flush.c), scheduling.c, the selected scheduler module, "
            "remote_dep*.c, parsec_mpi_funnelled.c, data.c, arena.c, termdet modules", "harness/l2/dtd_driver.c (rankified with the library, one copy per simulated rank)"]
REGISTRY["C03"] = l2("C03", "dtd", ["harness/l2/dtd_driver.c"], ["harness/l2/dtd.c"], 4, DTD_REAL,
    "1-4 ranks x 1-8 worker threads, 2-6 tiles of 1-4 elements, 3-28 insertions of 1-4 parameters (IN/OUT/INOUT, same tile repeated allowed), 11 schedulers, window in {default,1,2,8}, threshold in {default,1,2,4}, tasks inserting tasks (1 rank), network latency/jitter/heavy-tail/eager-limit/partial+lagging Testsome/late send completion",
    knobs=["prop=3"])
REGISTRY["C04"] = l2("C04", "dtd", ["harness/l2/dtd_driver.c"], ["harness/l2/dtd.c"], 4, DTD_REAL,
    "single rank (with several ranks a reader of a received copy and a writer of the owner copy touch different memory); otherwise as C03 (interval oracle: conflicting accesses never in flight together, a writer never begins before an earlier-inserted reader/writer of the tile ended, value stable under a running reader)",
    knobs=["prop=4", "nranks=1"])
REGISTRY["C17"] = l2("C17", "dtd", ["harness/l2/dtd_driver.c"], ["harness/l2/dtd.c"], 4, DTD_REAL,
    "as C03 with partial flushes (random subset of tiles) or flush_all; owner copy after flush+wait compared with the last writer in insertion order",
    knobs=["prop=17"])
PTG_PROGS = ["chain", "branch", "wave", "gather", "steps", "newnull", "startup", "alt", "ctldata"]
PTG_ALL = [(p, m) for p in PTG_PROGS for m in ("dynamic-hash-table", "index-array")]
PTG_REAL = ["ptgpp (the real PTG compiler: jdf.c, jdf2c.c, parsec.y) run on generated JDF programs", "the generated startup / release_deps / data_lookup code, instrumented",
            "all of libparsec, instrumented (parsec.c, scheduling.c, scheduler modules, datarepo.c, mempool.c, hash tables, remote_dep*.c, parsec_mpi_funnelled.c, termdet modules)",
            "harness/l2/ptg_driver.c (rankified with the library and the generated code, one copy per simulated rank)"]
PTG_BOUNDS = ("9 generated PTG programs (RW chains with derived locals, range fan-out + ternary routing, triangular wavefront with NEW/NULL, CTL range gather/fan-out, "
              "negative and expression steps, WRITE<-NEW broadcast to readers, stepped dependency ranges and many startup tasks, alternative guarded inputs on one CTL / data flow, control + data flows of one task to one remote successor) x 2 dependency back-ends; "
              "sizes N<=6 M<=4 L,S<=3 (<= ~60 task instances), 1-8 threads, 11 schedulers, task_startup_iter/chunk in {default,1,2,7}, keep_highest_priority_task")

def ptg(prop, knobs, ranks, bounds_extra="", quick=(120, 200000), thorough=(1800, 20000000), progs=None, engine="simcore-L1", **kw):
    d = {"property": prop, "harness": "ptg", "ptg": progs or PTG_ALL, "ranked": ranks, "real": PTG_REAL, "stub": L2_STUB,
         "bounds": PTG_BOUNDS + bounds_extra, "engine": engine, "knobs_cli": list(knobs),
         "budget": {"quick": {"time": quick[0], "runs": quick[1]}, "thorough": {"time": thorough[0], "runs": thorough[1]}}}
    d.update(kw)
    return d

REGISTRY["C01"] = ptg("C01", ["prop=1"], 4, "; 1-4 ranks for placement", engine="simcore-L2")
REGISTRY["C02"] = ptg("C02", ["prop=2", "nranks=1"], 1)
REGISTRY["C16"] = ptg("C16", ["prop=16", "nranks=1", "again_pct=40"], 1, "; bodies return AGAIN 1-5 times for 40% of the instances")
REGISTRY["C05"] = ptg("C05", ["prop=5"], 4, progs=PTG_ALL + [("mcast", "dynamic-hash-table"), ("mcast", "index-array")], bounds_extra= "; 1-4 ranks, runtime_comm_coll_bcast in {default,0,1,2}, short_limit, aggregate, thread_multiple, simulated network adversities", engine="simcore-L2")
REGISTRY["C15"] = ptg("C15", ["prop=15", "nranks=1", "hist=15"], 1, "; compositions of 1-20 taskpools (crossing the realloc boundary at 16), optionally next to an independent taskpool")
REGISTRY["C06"] = ptg("C06", ["prop=6", "nranks=1", "hist=6"], 1, "; API histories of 1-4 start/wait epochs with 1-3 PTG taskpools each, added before or after start or from a completion callback, parsec_context_test and parsec_taskpool_wait in between; plus the DTD harness (as C03, 1 rank) with the wait oracle: parsec_taskpool_wait / parsec_context_wait return only after every task inserted before has completed, insert / wait / insert / wait epochs through parsec_dtd_taskpool_leave_wait", also=["C03"])
PTG_DYN = [(p, m + "+dyn") for p in ("chain", "branch", "wave", "gather", "newnull", "startup", "mcast", "alt", "ctldata") for m in ("dynamic-hash-table",)] + [("steps", "index-array+dyn")]
REGISTRY["C11"] = ptg("C11", ["prop=11"], 5, "; programs compiled with ptgpp --dynamic-termdet (real four-counter module, real remote_dep message accounting, wave messages over simmpi), 1-5 ranks; "
                      "oracle at every termination callback: no task pending anywhere, no application message in flight; every rank detects termination exactly once", progs=PTG_DYN, engine="simcore-L2")
REGISTRY["C12"] = ptg("C12", ["prop=12"], 8, "; user-triggered termination program, 1-8 ranks, every root (global R), notifications observed on the simulated network", progs=[("utt", "dynamic-hash-table"), ("utt", "index-array")], engine="simcore-L2")
REGISTRY["C13"] = ptg("C13", ["prop=13"], 8, "; 1-8 ranks, comm_coll_bcast in {default,0,1,2}; activation headers decoded on the simulated network", progs=[("mcast", "dynamic-hash-table"), ("mcast", "index-array"), ("newnull", "dynamic-hash-table"), ("branch", "dynamic-hash-table"), ("wave", "dynamic-hash-table"), ("gather", "dynamic-hash-table"), ("ctldata", "dynamic-hash-table"), ("ctldata", "index-array")], engine="simcore-L2")

# fragments written per property (one file each, so that harnesses can be developed independently)
import glob, os as _os
for _f in sorted(glob.glob(_os.path.join(_os.path.dirname(_os.path.abspath(__file__)), "registry.d", "*.py"))):
    exec(compile(open(_f).read(), _f, "exec"))
