"""Registry: property id -> harness spec (sources, budgets, what is real / stub)."""

L0_STUB = ["OS thread scheduler (seeded serialising scheduler over parked pthreads)", "clock (discrete-event simulated clock)"]

def l0(prop, name, real, bounds, quick=(45, 400000), thorough=(900, 40000000), extra_instr=(), extra_plain=(), **kw):
    d = {"property": prop, "harness": name,
         "instr": ["harness/l0/%s_shim.c" % name] + list(extra_instr),
         "plain": ["harness/l0/%s.c" % name] + list(extra_plain),
         "real": real, "stub": L0_STUB, "bounds": bounds,
         "budget": {"quick": {"time": quick[0], "runs": quick[1]}, "thorough": {"time": thorough[0], "runs": thorough[1]}}}
    d.update(kw)
    return d

REGISTRY = {}

REGISTRY["C30"] = l0("C30", "c30_lifo",
    real=["parsec/class/lifo.h (inline 128-bit CAS variant, via instrumented shim)", "parsec/class/parsec_lifo.c (out-of-line copy)", "parsec/class/parsec_object.c"],
    bounds="2-4 sim-threads, <= 22 operations (push/chain/pop/try_pop), 0-4 initial + 1-3 items per thread, items recycled; WGL linearizability + conservation")

# fragments written per property (one file each, so that harnesses can be developed independently)
import glob, os as _os
for _f in sorted(glob.glob(_os.path.join(_os.path.dirname(_os.path.abspath(__file__)), "registry.d", "*.py"))):
    exec(compile(open(_f).read(), _f, "exec"))
