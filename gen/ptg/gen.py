#!/usr/bin/env python3
"""PTG program generator (DESIGN 3.6): one abstract program -> (a) JDF text for the real PTG
compiler and (b) a C reference (instance enumeration + dependency function) for the harness.

Both are emitted from the same description, so the reference cannot drift from the program.
The harness additionally validates every program before using it: for each output dependency
of each instance the destination's input dependency must resolve back to that instance
(PTG's symmetric-dependency requirement); a program failing that is a generator bug (exit 2),
never a violation.

Programs are small descriptions in the DSL below (`PROGRAMS`); sizes (globals), thread
counts, schedulers, rank counts and knobs vary at run time.
"""
import sys, os, json

# ----------------------------------------------------------------------------- DSL
class Coll:
    def __init__(self, idx): self.idx = idx           # C expression for the tile index
class TaskRef:
    def __init__(self, task, flow, args): self.task, self.flow, self.args = task, flow, args
    # args: list of C expressions or ('range', lo, hi)
class New: pass
class Null: pass

class Flow:
    def __init__(self, name, kind):
        self.name, self.kind = name, kind           # RW READ WRITE CTL
        self.ins, self.outs = [], []
        self.type = None
    def inp(self, src, guard=None):
        self.ins.append((guard, src)); return self
    def out(self, dst, guard=None):
        self.outs.append((guard, dst)); return self

class Task:
    def __init__(self, name):
        self.name = name
        self.defs = []          # ('param', name, lo, hi, step) | ('local', name, expr)
        self.aff = '0'
        self.flows = []
        self.prio = None
        self.epilogue = None        # C statement appended to the body (e.g. the user trigger)
    def param(self, name, lo, hi, step=None):
        self.defs.append(('param', name, lo, hi, step)); return self
    def local(self, name, expr):
        self.defs.append(('local', name, expr)); return self
    def affinity(self, expr):
        self.aff = expr; return self
    def priority(self, expr):
        self.prio = expr; return self
    def flow(self, name, kind):
        f = Flow(name, kind); self.flows.append(f); return f
    @property
    def params(self): return [d[1] for d in self.defs if d[0] == 'param']

class Prog:
    def __init__(self, name, globals_):
        self.name, self.globals, self.tasks = name, globals_, []
        self.termdet = None         # None | "user-triggered"
    def task(self, name):
        t = Task(name); self.tasks.append(t); return t
    def tindex(self, name): return [t.name for t in self.tasks].index(name)
    def findex(self, tname, fname):
        t = self.tasks[self.tindex(tname)]
        return [f.name for f in t.flows].index(fname)

# ----------------------------------------------------------------------------- JDF emission
def jdf_dep_target(x):
    if isinstance(x, Coll): return "A(%s, 0)" % x.idx
    if isinstance(x, New): return "NEW"
    if isinstance(x, Null): return "NULL"
    args = []
    for a in x.args:
        if isinstance(a, tuple): args.append("%s .. %s" % (a[1], a[2]) + ((" .. %s" % a[3]) if len(a) > 3 else ""))
        else: args.append(a)
    return "%s %s(%s)" % (x.flow, x.task, ", ".join(args))

def emit_jdf(p):
    o = []
    o.append('extern "C" %{')
    o.append('#include "parsec/runtime.h"')
    o.append('#include "parsec/data_distribution.h"')
    o.append('#include "parsec/arena.h"')
    o.append('#include "parsec/datatype.h"')
    o.append('#include <stdint.h>')
    o.append('int ptgh_body(int rank, int tpid, int cls, const int *params, void **data);')
    o.append('%}')
    o.append('')
    if p.termdet: o.append('%%option termdet = "%s"\n' % p.termdet)
    o.append('A          [type = "parsec_data_collection_t*"]')
    o.append('TPID       [type = int]')
    for g in p.globals: o.append('%-10s [type = int]' % g)
    o.append('')
    for ci, t in enumerate(p.tasks):
        o.append("%s(%s)" % (t.name, ", ".join(t.params)))
        o.append('')
        for d in t.defs:
            if d[0] == 'param':
                _, n, lo, hi, st = d
                o.append("%s = %s .. %s%s" % (n, lo, hi, (" .. %s" % st) if st is not None else ""))
            else:
                o.append("%s = %s" % (d[1], d[2]))
        o.append('')
        o.append(": A(%s, 0)" % t.aff)
        o.append('')
        for f in t.flows:
            lines = []
            for g, s in f.ins:
                lines.append("<- " + (("(%s) ? " % g) if g else "") + jdf_dep_target(s))
            for g, d in f.outs:
                lines.append("-> " + (("(%s) ? " % g) if g else "") + jdf_dep_target(d))
            head = "%-5s %s " % (f.kind, f.name)
            pad = " " * len(head)
            for i, l in enumerate(lines): o.append((head if i == 0 else pad) + l)
            o.append('')
        if t.prio is not None:
            o.append("; %s" % t.prio)
            o.append('')
        o.append("BODY")
        o.append("{")
        o.append("    int _p[] = {%s};" % (", ".join(t.params) if t.params else "0"))
        o.append("    void *_d[] = {%s};" % (", ".join((f.name if f.kind != 'CTL' else "NULL") for f in t.flows) if t.flows else "NULL"))
        o.append("    if( ptgh_body(this_task->taskpool->context->my_rank, TPID, %d, _p, _d) ) return PARSEC_HOOK_RETURN_AGAIN;" % ci)
        if t.epilogue: o.append("    " + t.epilogue)
        o.append("}")
        o.append("END")
        o.append('')
    o.append('extern "C" %{')
    o.append('parsec_taskpool_t *ptg_make(parsec_data_collection_t *A, int tpid, const int *G, int nelems)')
    o.append('{')
    o.append('    parsec_%s_taskpool_t *tp = parsec_%s_new(A, tpid%s);' % (p.name, p.name, "".join(", G[%d]" % i for i in range(len(p.globals)))))
    o.append('    parsec_datatype_t block;')
    o.append('    ptrdiff_t lb, extent;')
    o.append('    parsec_type_create_contiguous(nelems, parsec_datatype_double_t, &block);')
    o.append('    parsec_type_extent(block, &lb, &extent);')
    o.append('    parsec_arena_datatype_set_type(&tp->arenas_datatypes[PARSEC_%s_DEFAULT_ADT_IDX], extent, PARSEC_ARENA_ALIGNMENT_SSE, block);' % p.name)
    o.append('    return &tp->super;')
    o.append('}')
    o.append('%}')
    return "\n".join(o) + "\n"

# ----------------------------------------------------------------------------- C reference emission
def c_globals(p):
    return "".join("    int %s = G[%d]; (void)%s;\n" % (g, i, g) for i, g in enumerate(p.globals))

def emit_loops(t, body, indent="    "):
    """nested loops over the parameter space (params and locals in declaration order)"""
    s = ""
    depth = 0
    for d in t.defs:
        ind = indent + "    " * depth
        if d[0] == 'param':
            _, n, lo, hi, st = d
            st = st if st is not None else "1"
            s += ind + "{ int _st_%s = (%s); if (_st_%s == 0) _st_%s = 1;\n" % (n, st, n, n)
            s += ind + "for (int %s = (%s); _st_%s > 0 ? %s <= (%s) : %s >= (%s); %s += _st_%s) {\n" % (n, lo, n, n, hi, n, hi, n, n)
            depth += 1
        else:
            s += ind + "int %s = (%s); (void)%s;\n" % (d[1], d[2], d[1])
    ind = indent + "    " * depth
    s += "".join(ind + l + "\n" for l in body)
    for d in reversed(t.defs):
        if d[0] == 'param':
            depth -= 1
            s += indent + "    " * depth + "} }\n"
    return s

def emit_ref(p):
    o = []
    o.append('/* generated by gen/ptg/gen.py from program "%s": do not edit */' % p.name)
    o.append('#include "harness/l2/ptg_ref.h"')
    o.append('')
    for ci, t in enumerate(p.tasks):
        P = t.params
        # enumeration
        o.append("static void enum_%s(const int *G, ptg_inst_cb cb, void *u)\n{" % t.name)
        o.append(c_globals(p).rstrip("\n"))
        body = ["{ int _P[PTG_MAX_PARAMS] = {%s}; cb(u, %d, _P, (%s), (%s)); }" % (", ".join(P) if P else "0", ci, t.aff, t.prio if t.prio is not None else "0")]
        o.append(emit_loops(t, body).rstrip("\n"))
        o.append("}")
        # dependency function for one instance
        o.append("static void deps_%s(const int *G, const int *_P, ptg_dep_cb cb, void *u)\n{" % t.name)
        o.append(c_globals(p).rstrip("\n"))
        pi = 0
        for d in t.defs:
            if d[0] == 'param':
                o.append("    int %s = _P[%d]; (void)%s;" % (d[1], pi, d[1])); pi += 1
            else:
                o.append("    int %s = (%s); (void)%s;" % (d[1], d[2], d[1]))
        for fi, f in enumerate(t.flows):
            o.append("    /* flow %s */" % f.name)
            # inputs: first alternative whose guard holds (guards are exclusive by construction; the
            # harness checks that at most one holds)
            for g, s in f.ins:
                cond = "(%s)" % g if g else "1"
                o.append("    if (%s) {" % cond)
                o.append(emit_dep_call(p, fi, 0, s))
                o.append("    }")
            for g, d in f.outs:
                cond = "(%s)" % g if g else "1"
                o.append("    if (%s) {" % cond)
                o.append(emit_dep_call(p, fi, 1, d))
                o.append("    }")
        o.append("}")
        o.append('')
    o.append("static const ptg_class_t classes[] = {")
    for t in p.tasks:
        kinds = ", ".join({"RW": "PTG_RW", "READ": "PTG_READ", "WRITE": "PTG_WRITE", "CTL": "PTG_CTL"}[f.kind] for f in t.flows) or "0"
        names = ", ".join('"%s"' % f.name for f in t.flows) or '""'
        ppos = ", ".join(str(i) for i, d in enumerate(t.defs) if d[0] == 'param') or "0"
        o.append('    {"%s", %d, %d, {%s}, {%s}, enum_%s, deps_%s, {%s}},' % (t.name, len(t.params), len(t.flows), kinds, names, t.name, t.name, ppos))
    o.append("};")
    o.append('const ptg_ref_t PTG_REF = {"%s", %d, {%s}, %d, classes};' % (p.name, len(p.globals), ", ".join('"%s"' % g for g in p.globals), len(p.tasks)))
    return "\n".join(o) + "\n"

def emit_dep_call(p, fi, direction, x):
    if isinstance(x, Coll):
        return "        cb(u, %d, %d, PTG_K_COLL, -1, -1, NULL, (%s));" % (fi, direction, x.idx)
    if isinstance(x, New):
        return "        cb(u, %d, %d, PTG_K_NEW, -1, -1, NULL, 0);" % (fi, direction)
    if isinstance(x, Null):
        return "        cb(u, %d, %d, PTG_K_NULL, -1, -1, NULL, 0);" % (fi, direction)
    ti = p.tindex(x.task)
    fj = p.findex(x.task, x.flow)
    # expand ranges with nested loops
    s = ""
    names = []
    depth = 0
    for k, a in enumerate(x.args):
        if isinstance(a, tuple):
            v = "_r%d" % k
            s += "        " + "    " * depth + "for (int %s = (%s); %s <= (%s); %s += (%s)) {\n" % (v, a[1], v, a[2], v, a[3] if len(a) > 3 else "1")
            names.append(v)
            depth += 1
        else:
            names.append("(%s)" % a)
    s += "        " + "    " * depth + "{ int _Q[PTG_MAX_PARAMS] = {%s}; cb(u, %d, %d, PTG_K_TASK, %d, %d, _Q, 0); }\n" % (", ".join(names) if names else "0", fi, direction, ti, fj)
    for k in range(depth):
        depth -= 1
        s += "        " + "    " * depth + "}\n"
    return s.rstrip("\n")

# ----------------------------------------------------------------------------- program library
def prog_chain():
    """RW chain over one tile per lane; derived local; write-back at the end"""
    p = Prog("chain", ["N", "L"])
    t = p.task("T").param("l", "0", "L-1").param("k", "0", "N-1").local("nxt", "k+1").affinity("l")
    f = t.flow("X", "RW")
    f.inp(Coll("l"), "k == 0").inp(TaskRef("T", "X", ["l", "k-1"]), "k > 0")
    f.out(TaskRef("T", "X", ["l", "nxt"]), "k < N-1").out(Coll("l"), "k == N-1")
    return p

def prog_branch():
    """the 'branching' shape: fan-out by range to readers, ternary routing to two flows, READ + RW"""
    p = Prog("branch", ["N"])
    a = p.task("TA").param("k", "0", "N-1").affinity("k")
    a.flow("T", "READ").inp(Coll("k")).out(TaskRef("TB", "T", [("range", "2*k", "2*k+1")]))
    b = p.task("TB").param("k", "0", "2*N-1").affinity("k % N")
    b.flow("T", "READ").inp(TaskRef("TA", "T", ["k/2"])) \
        .out(TaskRef("TC", "T1", ["k/2"]), "(k % 2) == 0").out(TaskRef("TC", "T2", ["k/2"]), "(k % 2) != 0")
    c = p.task("TC").param("k", "0", "N-1").affinity("k")
    c.flow("T1", "RW").inp(TaskRef("TB", "T", ["2*k"])).out(Coll("k"))
    c.flow("T2", "READ").inp(TaskRef("TB", "T", ["2*k+1"]))
    return p

def prog_wave():
    """2-D triangular wavefront: RW chain along j, NEW data handed to the row below, NULL under a
    guard, triangular ranges, priorities"""
    p = Prog("wave", ["N"])
    t = p.task("W").param("i", "0", "N-1").param("j", "0", "i").affinity("i").priority("N - i")
    v = t.flow("V", "RW")
    v.inp(Coll("i"), "j == 0").inp(TaskRef("W", "V", ["i", "j-1"]), "j > 0")
    v.out(TaskRef("W", "V", ["i", "j+1"]), "j < i").out(Coll("i"), "j == i")
    s2 = t.flow("S", "WRITE")
    s2.inp(New()).out(TaskRef("W", "H", ["i+1", "j"]), "i < N-1")
    h = t.flow("H", "READ")
    h.inp(TaskRef("W", "S", ["i-1", "j"]), "i > 0 && j < i").inp(Null(), "!(i > 0 && j < i)")
    return p

def prog_gather():
    """control flows: range gather into one task, CTL fan-out, counter-style goals"""
    p = Prog("gather", ["N", "M"])
    a = p.task("TA").param("k", "0", "N-1").affinity("k")
    a.flow("D", "RW").inp(Coll("k")).out(Coll("k"))
    a.flow("X", "CTL").out(TaskRef("TC", "X", ["k % M"]))
    c = p.task("TC").param("m", "0", "M-1").affinity("m")
    c.flow("X", "CTL").inp(TaskRef("TA", "X", [("range", "0", "N-1")]))   # too wide: restricted below
    c.flow("Y", "CTL").out(TaskRef("TD", "Y", [("range", "0", "N-1")]))
    d = p.task("TD").param("k", "0", "N-1").affinity("N + k")
    d.flow("Y", "CTL").inp(TaskRef("TC", "Y", [("range", "0", "M-1")]))
    d.flow("E", "READ").inp(Coll("N + k"))
    return p

def prog_gather_fix(p):
    # TA(k) signals only TC(k % M); TC(m) therefore gathers from the k with k % M == m, which a plain
    # range cannot express -- use M == 1 style gather instead: every TA signals TC(0..M-1)
    a = p.tasks[0]
    a.flows[1].outs = [(None, TaskRef("TC", "X", [("range", "0", "M-1")]))]
    return p

def prog_steps():
    """negative and expression steps, derived locals used in dependencies, ternary guards"""
    p = Prog("steps", ["N", "S"])
    d = p.task("DN").param("k", "N-1", "0", "-1").local("up", "k+1").affinity("k % 2")
    f = d.flow("X", "RW")
    f.inp(Coll("k % 2"), "k == N-1").inp(TaskRef("DN", "X", ["up"]), "k < N-1")
    f.out(TaskRef("DN", "X", ["k-1"]), "k > 0").out(TaskRef("EV", "Y", ["0"]), "k == 0")
    e = p.task("EV").param("i", "0", "N-1", "S").local("nx", "i+S").affinity("0")
    g = e.flow("Y", "RW")
    g.inp(TaskRef("DN", "X", ["0"]), "i == 0").inp(TaskRef("EV", "Y", ["i-S"]), "i > 0")
    g.out(TaskRef("EV", "Y", ["nx"]), "nx <= N-1").out(Coll("0"), "nx > N-1")
    return p

def prog_newnull():
    """WRITE flows fed by NEW, broadcast by range to readers, NULL inputs under a guard"""
    p = Prog("newnull", ["N", "M"])
    s = p.task("SRC").param("k", "0", "N-1").affinity("k")
    s.flow("W", "WRITE").inp(New()).out(TaskRef("RD", "R", ["k", ("range", "0", "M-1")]))
    r = p.task("RD").param("k", "0", "N-1").param("j", "0", "M-1").affinity("(k + j) % N")
    r.flow("R", "READ").inp(TaskRef("SRC", "W", ["k"]))
    r.flow("O", "RW").inp(Coll("k"), "j == 0").inp(Null(), "j != 0").out(Coll("k"), "j == 0")
    r.flow("C", "CTL").out(TaskRef("FIN", "C", ["k"]))
    f = p.task("FIN").param("k", "0", "N-1").affinity("k")
    f.flow("C", "CTL").inp(TaskRef("RD", "C", ["k", ("range", "0", "M-1")]))
    return p

def prog_startup():
    """many independent startup tasks in two classes (startup enumeration / chunking), stepped
    dependency range, one join"""
    p = Prog("startup", ["N", "M"])
    a = p.task("SA").param("i", "0", "N-1").param("j", "0", "M-1").affinity("i % N").priority("i + j")
    a.flow("C", "CTL").out(TaskRef("JOIN", "CA", ["0"]))
    b = p.task("SB").param("k", "2*N-1", "0", "-2").affinity("k / 2")
    b.flow("D", "RW").inp(Coll("k / 2")).out(TaskRef("JOIN", "DB", ["0"]), "k == 1").out(Coll("k / 2"), "k != 1")
    b.flow("C", "CTL").out(TaskRef("JOIN", "CB", ["0"]))
    j = p.task("JOIN").param("z", "0", "0").affinity("0")
    j.flow("CA", "CTL").inp(TaskRef("SA", "C", [("range", "0", "N-1"), ("range", "0", "M-1")]))
    j.flow("CB", "CTL").inp(TaskRef("SB", "C", [("range", "1", "2*N-1", "2")]))
    j.flow("DB", "READ").inp(TaskRef("SB", "D", ["1"]))
    return p

PROGRAMS = {}
def reg(fn, fix=None):
    p = fn()
    if fix: p = fix(p)
    PROGRAMS[p.name] = p

reg(prog_chain)
reg(prog_branch)
reg(prog_wave)
reg(prog_gather, prog_gather_fix)
reg(prog_steps)
reg(prog_newnull)
reg(prog_startup)

def prog_mcast():
    """one producer, three outputs with differing / overlapping destination rank sets (C13)"""
    p = Prog("mcast", ["N", "M", "S"])
    s = p.task("SRC").param("k", "0", "N-1").affinity("k")
    s.flow("W1", "WRITE").inp(New()).out(TaskRef("R1", "X", ["k", ("range", "0", "M-1")]))
    s.flow("W2", "WRITE").inp(New()).out(TaskRef("R2", "X", ["k", ("range", "0", "M-1", "S")]))
    s.flow("W3", "WRITE").inp(New()).out(TaskRef("R3", "X", ["k"]))
    a = p.task("R1").param("k", "0", "N-1").param("j", "0", "M-1").affinity("k + j")
    a.flow("X", "READ").inp(TaskRef("SRC", "W1", ["k"]))
    b = p.task("R2").param("k", "0", "N-1").param("j", "0", "M-1", "S").affinity("k + 2*j + 1")
    b.flow("X", "READ").inp(TaskRef("SRC", "W2", ["k"]))
    c = p.task("R3").param("k", "0", "N-1").affinity("k + M")
    c.flow("X", "READ").inp(TaskRef("SRC", "W3", ["k"]))
    return p
reg(prog_mcast)

def prog_utt():
    """user-triggered termination: the last task, placed on the root chosen by global R, triggers it"""
    p = Prog("utt", ["N", "R"])
    p.termdet = "user-triggered"
    w = p.task("WORK").param("k", "0", "N-1").affinity("k")
    w.flow("D", "READ").inp(Coll("k"))
    w.flow("C", "CTL").out(TaskRef("FIN", "C", ["0"]))
    f = p.task("FIN").param("z", "0", "0").affinity("R")
    f.flow("C", "CTL").inp(TaskRef("WORK", "C", [("range", "0", "N-1")]))
    f.epilogue = "this_task->taskpool->tdm.module->taskpool_set_nb_tasks(this_task->taskpool, 0);"
    return p
reg(prog_utt)

def prog_alt():
    """alternative guarded inputs on ONE flow (not a ternary): a CTL flow and a data flow whose active input
    dependency is the first or the second guarded one depending on the instance; a CTL flow with three
    guarded alternatives of which none may be active (then no control is expected)"""
    p = Prog("alt", ["N"])
    f = p.task("FAST").param("k", "0", "N-1").affinity("k")
    f.flow("D", "RW").inp(Coll("k")).out(TaskRef("CONS", "T", ["k"]))
    f.flow("C", "CTL").out(TaskRef("SA", "C", ["k/2"]), "(k % 2) == 0").out(TaskRef("SB", "C", ["k/2"]), "(k % 2) == 1")
    a = p.task("SA").param("j", "0", "(N-1)/2").affinity("2*j + 1")
    a.flow("C", "CTL").inp(TaskRef("FAST", "C", ["2*j"]))
    a.flow("X", "CTL").out(TaskRef("CONS", "X", ["2*j"]))
    a.flow("Z", "CTL").out(TaskRef("CONS", "Z", ["2*j"]), "(j % 2) == 0")
    a.flow("V", "WRITE").inp(New()).out(TaskRef("CONS", "U", ["2*j"]))
    b = p.task("SB").param("j", "0", "(N/2)-1").affinity("2*j")
    b.flow("C", "CTL").inp(TaskRef("FAST", "C", ["2*j+1"]))
    b.flow("X", "CTL").out(TaskRef("CONS", "X", ["2*j+1"]))
    b.flow("Z", "CTL").out(TaskRef("CONS", "Z", ["2*j+1"]), "(j % 3) == 1")
    b.flow("V", "WRITE").inp(New()).out(TaskRef("CONS", "U", ["2*j+1"]))
    c = p.task("CONS").param("k", "0", "N-1").affinity("k")
    c.flow("T", "RW").inp(TaskRef("FAST", "D", ["k"])).out(Coll("k"))
    c.flow("X", "CTL").inp(TaskRef("SA", "X", ["k/2"]), "(k % 2) == 0").inp(TaskRef("SB", "X", ["k/2"]), "(k % 2) == 1")
    c.flow("Z", "CTL").inp(TaskRef("SA", "Z", ["k/2"]), "(k % 2) == 0 && ((k/2) % 2) == 0").inp(TaskRef("SB", "Z", ["k/2"]), "(k % 2) == 1 && ((k/2) % 3) == 1")
    c.flow("U", "READ").inp(TaskRef("SA", "V", ["k/2"]), "(k % 2) == 0").inp(TaskRef("SB", "V", ["k/2"]), "(k % 2) == 1")
    return p
reg(prog_alt)

def prog_ctldata():
    """control and data flows of ONE task going to the same successor on another rank, the control flow declared
    first (the activation message then carries outputs with and without payload, in that order), plus a second
    pair declared data-first and a fan-out of the control flow to several ranks"""
    p = Prog("ctldata", ["N", "M"])
    s = p.task("SRC").param("k", "0", "N-1").affinity("2*k")
    s.flow("C1", "CTL").out(TaskRef("DST", "C1", ["k"]))
    s.flow("D1", "RW").inp(Coll("2*k")).out(TaskRef("DST", "D1", ["k"]))
    s.flow("D2", "WRITE").inp(New()).out(TaskRef("DST", "D2", ["k"])).out(TaskRef("OBS", "X", ["k", ("range", "0", "M-1")]))
    s.flow("C2", "CTL").out(TaskRef("DST", "C2", ["k"])).out(TaskRef("OBS", "C", ["k", ("range", "0", "M-1")]))
    d = p.task("DST").param("k", "0", "N-1").affinity("2*k + 1")
    d.flow("C1", "CTL").inp(TaskRef("SRC", "C1", ["k"]))
    d.flow("D1", "RW").inp(TaskRef("SRC", "D1", ["k"])).out(Coll("2*k + 1"))
    d.flow("D2", "READ").inp(TaskRef("SRC", "D2", ["k"]))
    d.flow("C2", "CTL").inp(TaskRef("SRC", "C2", ["k"]))
    o = p.task("OBS").param("k", "0", "N-1").param("j", "0", "M-1").affinity("2*k + 2 + j")
    o.flow("C", "CTL").inp(TaskRef("SRC", "C2", ["k"]))
    o.flow("X", "READ").inp(TaskRef("SRC", "D2", ["k"]))
    return p
reg(prog_ctldata)

if __name__ == "__main__":
    if len(sys.argv) < 3:
        print("usage: gen.py <program|list> <outdir>"); sys.exit(2)
    if sys.argv[1] == "list":
        print(" ".join(PROGRAMS)); sys.exit(0)
    p = PROGRAMS[sys.argv[1]]
    od = sys.argv[2]
    os.makedirs(od, exist_ok=True)
    open(os.path.join(od, p.name + ".jdf"), "w").write(emit_jdf(p))
    open(os.path.join(od, p.name + "_ref.c"), "w").write(emit_ref(p))
    print(os.path.join(od, p.name + ".jdf"))
