#!/usr/bin/env python3
"""Typed-flow PTG programs for property C18 (typed PTG flows deliver correctly converted copies).

One table per program -> (a) the JDF text compiled by the real ptgpp and (b) the C description of the
same table (typed_ref.c) from which the harness derives its model; both come from the same rows, so
the model cannot drift from the program.

Shape of every program (k = tile index, NT tiles, one instance of every class per tile):

    P(k)   producer: owns the full N x N tile (RW on the collection tile A(k,0), or WRITE <- NEW), writes
           unique values, fans out on ONE flow to the first-level consumers and to the late reader R(k)
    Cj(k)  first-level consumers: the dependency P.A -> Cj.X carries the declared datatypes of the row
           ([type = ..] = local, [type_remote = ..] = remote; on the output side, the input side, or both);
           placed by affinity A((k + shift_j) % NT, 0): same or another rank
    Dj(k)  second-level consumers: consume the flow X of one Cj (chain), again with declared datatypes
    R(k)   late reader of the ORIGINAL (untyped dependency from P), runs after every consumer of tile k
           (control-flow gather), so it sees what the producer's data looks like afterwards; optional like
           the consumers (an untyped local dependency next to typed ones is itself a shape of interest)

Which classes exist, for which tiles (range lo..hi) and where (shift) is decided per run through the
integer table TAB handed to the taskpool (TAB[4*cls + {lo, hi, shift}]); a disabled class has the
empty range 0..-1.  Guards and ranges read TAB through inline C, so one compiled program covers many
shapes.

Rules the rows obey (checked below; the harness re-checks them on the C table):
 * pack and unpack signatures of one dependency are equal: output and input side name the same shape
   (LOWER/LOWER2 and DEFAULT/FULL are equal shapes with datatypes of their own), an input-only local
   type is only used where the producer's copy has the same signature (full tile);
 * chain dependencies (from a consumer, whose copy may be a triangle) always declare type_remote:
   an undeclared remote type means "send with the copy's datatype, receive with DEFAULT";
 * a flow has at most 10 output dependencies (MAX_DEP_OUT_COUNT), a control flow at most 10 inputs.
"""
import os, sys

TYPES = ["DEFAULT", "FULL", "LOWER", "UPPER", "LOWER2", "UPPERX"]
SHAPE = {"DEFAULT": "full", "FULL": "full", "LOWER": "lower", "UPPER": "upper", "LOWER2": "lower", "UPPERX": "upperx", None: None}
NELEM = {"full": lambda n: n * n, "lower": lambda n: n * (n + 1) // 2, "upper": lambda n: n * (n + 1) // 2, "upperx": lambda n: n * (n - 1) // 2}


class Row:
    def __init__(self, name, parent, access, out=(None, None), inp=(None, None)):
        self.name, self.parent, self.access = name, parent, access
        self.otl, self.otr = out
        self.itl, self.itr = inp


class Prog:
    def __init__(self, name, kind, new_type, rows):
        self.name, self.kind, self.new_type, self.rows = name, kind, new_type, rows

    def classes(self):
        return ["P"] + [r.name for r in self.rows] + ["R"]

    def index(self, name):
        return self.classes().index(name)

    def children(self, name):
        return [r for r in self.rows if r.parent == name]

    def used_types(self):
        s = {"DEFAULT"}
        if self.kind == "new":
            s.add(self.new_type)
        for r in self.rows:
            s |= {t for t in (r.otl, r.otr, r.itl, r.itr) if t}
        return [t for t in TYPES if t in s]


def check(p):
    names = p.classes()
    assert len(set(names)) == len(names) and len(names) <= 24
    for r in p.rows:
        assert r.parent in names and r.parent != "R"
        par = None if r.parent == "P" else [x for x in p.rows if x.name == r.parent][0]
        assert par is None or par.parent == "P", "two levels only"
        # local: pack otl (or the copy's datatype), unpack itl (or otl)
        if r.otl and r.itl:
            assert SHAPE[r.otl] == SHAPE[r.itl], r.name
        if r.itl and not r.otl:
            assert par is None and SHAPE[r.itl] == "full", "%s: input-only local type needs a full-tile producer copy" % r.name
        # remote: send otr (or the copy's datatype), receive itr (or DEFAULT)
        assert SHAPE[r.otr] == SHAPE[r.itr] or (r.otr is None and SHAPE[r.itr] == "full" and par is None) or (r.itr is None and SHAPE[r.otr] == "full"), r.name
        if par is not None:
            assert r.otr and r.itr, "%s: chain dependencies declare type_remote" % r.name
    assert 1 + len(p.rows) <= 20, "R(k) has one control flow per consumer class (MAX_PARAM_COUNT flows per task)"
    assert len(p.children("P")) + 1 <= 10
    for r in p.rows:
        assert len(p.children(r.name)) <= 10
    assert len([r for r in p.rows if r.parent == "P"]) <= 10 and len([r for r in p.rows if r.parent != "P"]) <= 10


def props(tl, tr):
    s = []
    if tl: s.append("type = %s" % tl)
    if tr: s.append("type_remote = %s" % tr)
    return ("  [%s]" % " ".join(s)) if s else ""


def emit_jdf(p, pi):
    o = []
    o.append('extern "C" %{')
    o.append('/* generated by gen/typed/gen.py from the table of program "%s": do not edit */' % p.name)
    o.append('#include "parsec/runtime.h"')
    o.append('#include "parsec/data_distribution.h"')
    o.append('#include "parsec/data_dist/matrix/matrix.h"')
    o.append('#include "parsec/arena.h"')
    o.append('#include "parsec/datatype.h"')
    o.append('#include <stdint.h>')
    o.append('#include "harness/l2/typed_common.h"')
    o.append('#define T_LO(c)      (TAB[TQ_STRIDE * (c) + TQ_LO])')
    o.append('#define T_HI(c)      (TAB[TQ_STRIDE * (c) + TQ_HI])')
    o.append('#define T_EN(c, k)   ((k) >= T_LO(c) && (k) <= T_HI(c))')
    o.append('#define T_AFF(c, k)  (((k) + TAB[TQ_STRIDE * (c) + TQ_SHIFT]) % NT)')
    o.append('#define MYRANK       (this_task->taskpool->context->my_rank)')
    o.append('%}')
    o.append('')
    o.append('A          [type = "parsec_data_collection_t*"]')
    o.append('TAB        [type = "int*"]')
    o.append('NT         [type = int]')
    o.append('')
    ci = p.index
    # ---- producer
    o.append('P(k)')
    o.append('')
    o.append('k = 0 .. NT-1')
    o.append('')
    o.append(': A(k, 0)')
    o.append('')
    if p.kind == "desc":
        lines = ['<- A(k, 0)']
        head = 'RW    V '
    else:
        lines = ['<- NEW  [type = %s]' % p.new_type]
        head = 'WRITE V '
    for r in p.children("P"):
        lines.append('-> %%{ return T_EN(%d, k); %%} ? X %s(k)%s' % (ci(r.name), r.name, props(r.otl, r.otr)))
    lines.append('-> %%{ return T_EN(%d, k); %%} ? V R(k)' % ci("R"))
    for i, l in enumerate(lines):
        o.append((head if i == 0 else ' ' * len(head)) + l)
    o.append('')
    o.append('BODY')
    o.append('{')
    o.append('    typedh_body(MYRANK, %d, 0, k, V);' % pi)
    o.append('}')
    o.append('END')
    o.append('')
    # ---- consumers
    for r in p.rows:
        c = ci(r.name)
        o.append('%s(k)' % r.name)
        o.append('')
        o.append('k = %%{ return T_LO(%d); %%} .. %%{ return T_HI(%d); %%}' % (c, c))
        o.append('')
        o.append(': A(%%{ return T_AFF(%d, k); %%}, 0)' % c)
        o.append('')
        head = '%-5s X ' % r.access
        lines = ['<- %s %s(k)%s' % ("V" if r.parent == "P" else "X", r.parent, props(r.itl, r.itr))]
        for d in p.children(r.name):
            lines.append('-> %%{ return T_EN(%d, k); %%} ? X %s(k)%s' % (ci(d.name), d.name, props(d.otl, d.otr)))
        for i, l in enumerate(lines):
            o.append((head if i == 0 else ' ' * len(head)) + l)
        o.append('')
        o.append('CTL   c -> %%{ return T_EN(%d, k); %%} ? g%d R(k)' % (ci("R"), c))
        o.append('')
        o.append('BODY')
        o.append('{')
        o.append('    typedh_body(MYRANK, %d, %d, k, X);' % (pi, c))
        o.append('}')
        o.append('END')
        o.append('')
    # ---- late reader
    c = ci("R")
    o.append('R(k)')
    o.append('')
    o.append('k = %%{ return T_LO(%d); %%} .. %%{ return T_HI(%d); %%}' % (c, c))
    o.append('')
    o.append(': A(%%{ return T_AFF(%d, k); %%}, 0)' % c)
    o.append('')
    o.append('READ  V <- V P(k)')
    o.append('')
    # one control flow per consumer class: input dependencies of ONE flow are alternatives in PTG (one bit of the
    # dependency mask per flow), a gather over several classes therefore needs a flow per class
    for r in p.rows:
        o.append('CTL   g%d <- %%{ return T_EN(%d, k); %%} ? c %s(k)' % (ci(r.name), ci(r.name), r.name))
    o.append('')
    o.append('BODY')
    o.append('{')
    o.append('    typedh_body(MYRANK, %d, %d, k, V);' % (pi, c))
    o.append('}')
    o.append('END')
    o.append('')
    # ---- constructor used by the driver
    o.append('extern "C" %{')
    o.append('parsec_taskpool_t *typed_make_%s(parsec_data_collection_t *dc, int *tab, int nt, const parsec_arena_datatype_t *adts)' % p.name)
    o.append('{')
    o.append('    parsec_%s_taskpool_t *tp = parsec_%s_new(dc, tab, nt);' % (p.name, p.name))
    for t in p.used_types():
        o.append('    tp->arenas_datatypes[PARSEC_%s_%s_ADT_IDX] = adts[TT_%s];' % (p.name, t, t))
    o.append('    return &tp->super;')
    o.append('}')
    o.append('%}')
    return "\n".join(o) + "\n"


def emit_ref(progs):
    o = ['/* generated by gen/typed/gen.py: do not edit */', '#include "harness/l2/typed_common.h"', '']
    tt = lambda t: "TT_%s" % t if t else "TT_NONE"
    for p in progs:
        o.append("static const typed_class_t classes_%s[] = {" % p.name)
        o.append('    {"P", 0, -1, TACC_RW, TT_NONE, TT_NONE, TT_NONE, TT_NONE},')
        for r in p.rows:
            o.append('    {"%s", 1, %d, TACC_%s, %s, %s, %s, %s},' % (r.name, p.index(r.parent), r.access, tt(r.otl), tt(r.otr), tt(r.itl), tt(r.itr)))
        o.append('    {"R", 2, 0, TACC_READ, TT_NONE, TT_NONE, TT_NONE, TT_NONE},')
        o.append("};")
    o.append("const typed_prog_t TYPED_PROGS[] = {")
    for p in progs:
        o.append('    {"%s", %s, %s, %d, classes_%s},' % (p.name, "TPK_DESC" if p.kind == "desc" else "TPK_NEW", tt(p.new_type), len(p.classes()), p.name))
    o.append("};")
    o.append("const int TYPED_NPROGS = %d;" % len(progs))
    return "\n".join(o) + "\n"


def emit_hdr(progs):
    o = ['/* generated by gen/typed/gen.py: do not edit */', '#ifndef TYPED_GEN_H', '#define TYPED_GEN_H']
    for p in progs:
        o.append('parsec_taskpool_t *typed_make_%s(parsec_data_collection_t *dc, int *tab, int nt, const parsec_arena_datatype_t *adts);' % p.name)
    o.append('#define TYPED_MAKE(prog, dc, tab, nt, adts) ( \\')
    for i, p in enumerate(progs):
        o.append('    (prog) == %d ? typed_make_%s(dc, tab, nt, adts) : \\' % (i, p.name))
    o.append('    NULL)')
    o.append('#endif')
    return "\n".join(o) + "\n"


# ----------------------------------------------------------------------------- program library
def prog_tdesc():
    """producer owns the collection tile (its copy has the collection's default datatype)"""
    return Prog("tdesc", "desc", None, [
        Row("C0", "P", "READ"),                                                        # untyped control: the original / a full remote copy
        Row("C1", "P", "RW",   out=("LOWER", None),      inp=("LOWER", None)),         # local reshape declared on both sides
        Row("C2", "P", "READ", out=("UPPER", None)),                                   # local reshape declared on the output only
        Row("C3", "P", "RW",   out=("FULL", None),       inp=("FULL", None)),          # full tile, but a datatype of its own: a converted private copy
        Row("C4", "P", "RW",   out=(None, "LOWER"),      inp=(None, "LOWER")),         # remote type only: the original when local
        Row("C5", "P", "READ", out=(None, "UPPER"),      inp=(None, "UPPER")),
        Row("C6", "P", "RW",   out=("UPPERX", "LOWER2"), inp=("UPPERX", "LOWER2")),    # different shapes for the local and the remote form
        Row("C7", "P", "READ", out=(None, "LOWER"),      inp=(None, "LOWER2")),        # same remote output type as C4, received with another datatype (packed reception + reshape)
        Row("D0", "C1", "RW",   out=("UPPER", "UPPER"),  inp=("UPPER", "UPPER")),      # chain: lower copy forwarded as upper (only the diagonal is specified)
        Row("D1", "C1", "READ", out=("LOWER", "LOWER"),  inp=(None, "LOWER")),         # chain: same type as the forwarding task's copy
        Row("D2", "C4", "RW",   out=("FULL", "FULL"),    inp=("FULL", "FULL")),
        Row("D3", "C6", "READ", out=("LOWER", "UPPER"),  inp=("LOWER", "UPPER")),
        Row("D4", "C6", "RW",   out=("LOWER2", "UPPER"), inp=("LOWER2", "UPPER")),     # two chain consumers of one flow with differing local types
    ])


def prog_tnew():
    """producer flow is WRITE <- NEW [type = FULL]: its copy comes from the FULL arena"""
    return Prog("tnew", "new", "FULL", [
        Row("C0", "P", "READ", out=("LOWER", None)),
        Row("C1", "P", "RW",   out=("LOWER", None),      inp=("LOWER", None)),         # same reshape as C0: one converted copy shared by design
        Row("C2", "P", "RW",   out=("UPPER", "UPPER"),   inp=("UPPER", "UPPER")),
        Row("C3", "P", "READ", out=(None, None),         inp=("DEFAULT", None)),       # type on the input only (FULL copy -> DEFAULT copy)
        Row("C4", "P", "READ", out=(None, "FULL"),       inp=(None, "DEFAULT")),
        Row("C5", "P", "RW",   out=(None, "FULL"),       inp=(None, "FULL")),          # same remote output type as C4, other reception datatype
        Row("C6", "P", "RW",   out=("LOWER2", None),     inp=("LOWER2", None)),
        Row("C7", "P", "READ", out=("UPPERX", "UPPERX"), inp=(None, "UPPERX")),
        Row("D0", "C2", "READ", out=("LOWER", "LOWER"),  inp=("LOWER", "LOWER")),
        Row("D1", "C2", "RW",   out=("UPPERX", "UPPER"), inp=("UPPERX", "UPPER")),
        Row("D2", "C5", "RW",   out=("LOWER", "LOWER2"), inp=("LOWER", "LOWER2")),
        Row("D3", "C0", "RW",   out=("FULL", "LOWER"),   inp=("FULL", "LOWER")),
    ])


PROGS = [prog_tdesc(), prog_tnew()]

if __name__ == "__main__":
    if len(sys.argv) < 2:
        print("usage: gen.py <outdir>"); sys.exit(2)
    od = sys.argv[1]
    os.makedirs(od, exist_ok=True)
    for i, p in enumerate(PROGS):
        check(p)
        open(os.path.join(od, p.name + ".jdf"), "w").write(emit_jdf(p, i))
    open(os.path.join(od, "typed_ref.c"), "w").write(emit_ref(PROGS))
    open(os.path.join(od, "typed_gen.h"), "w").write(emit_hdr(PROGS))
    print(" ".join(p.name for p in PROGS))
